#!/usr/bin/env python3
"""Regenerates MANIFEST.json from the harness modules' MANIFEST dicts (keeps the file valid and in sync)."""
import importlib, json, os, sys
sys.path.insert(0, os.path.dirname(os.path.abspath(__file__)))
ALL = ['C%02d' % i for i in range(1, 21)]
NA = {}
PENDING = 'check not built yet in this session (solver-based harness planned in DESIGN.md section 4); not claimed until it exists'
checks, na = [], []
for pid in ALL:
    p = os.path.join(os.path.dirname(os.path.abspath(__file__)), 'harness', pid.lower() + '.py')
    if pid in NA:
        na.append({'property_id': pid, 'reason': NA[pid]})
        continue
    if not os.path.exists(p):
        na.append({'property_id': pid, 'reason': PENDING})
        continue
    src = open(p).read()
    ns = {}
    # MANIFEST_ENTRY is a plain dict literal at module level: evaluate without importing the harness (no z3 needed)
    start = src.index('MANIFEST_ENTRY = ')
    import ast
    node = ast.parse(src)
    for n in node.body:
        if isinstance(n, ast.Assign) and getattr(n.targets[0], 'id', '') == 'MANIFEST_ENTRY':
            ent = ast.literal_eval(n.value)
    checks.append({
        'property_id': pid,
        'quick_cmd': './vcheck %s quick' % pid,
        'thorough_cmd': './vcheck %s thorough' % pid,
        'evidence_file': 'evidence/%s.json' % pid,
        'replay_cmd_template': './vcheck %s --replay {path}' % pid,
        'engine': 'LIFT',
        'level_claimed': {'category': 'model_checking', 'text': ent['text'], 'design_ref': ent.get('design_ref', 'DESIGN.md section 4 ' + pid)},
        'level_note': ent['note'],
        'technique': ent.get('technique', 'bounded symbolic execution of the real Python code on z3 terms (LIFT), SMT verdict per path, counterexamples replayed'),
    })
man = {
    'version': 1,
    'setup_cmd': './setup.sh',
    'hooks': {'guard': 'OBERSTEINER_SPARSESPACE_VERIF', 'enable': 'no source hooks are needed: the checks import /repo as it is and rebind names inside the loaded modules at run time',
              'baseline_off_cmd': 'cd /repo && /venv/bin/python -m pytest -ra -q -p no:cacheprovider --timeout=900 --continue-on-collection-errors',
              'source_commits': [], 'add_only': True},
    'engines': [{'name': 'LIFT', 'path': 'lift/', 'serves_properties': [c['property_id'] for c in checks],
                 'kind_free_text': 'purpose-built symbolic executor: z3-backed proxies run through the real sparseSpACE code (numpy on object arrays), '
                                   'depth-first path exploration by re-execution, SMT verdict per path and goal, concrete replay of every counterexample on the unshimmed library'}],
    'checks': checks,
    'not_applicable': na,
    'notes': 'Exit codes: 0 all obligations discharged; 1 replayed violation (VIOLATION line); 2 inconclusive (solver unknown, unsupported operation, '
             'budget, counterexample that does not replay). Known findings: known_findings.json. See DESIGN.md.',
}
json.dump(man, open(os.path.join(os.path.dirname(os.path.abspath(__file__)), 'MANIFEST.json'), 'w'), indent=1)
print('checks:', [c['property_id'] for c in checks], 'n/a:', [x['property_id'] for x in na])
