#!/bin/sh
# dev helper: ./dev.sh C01 quick 'H2-step[d=1'   (runs matching jobs only)
cd "$(dirname "$0")"
VERIF_ONLY="$3" timeout ${T:-300} ./vcheck "$1" "$2"
