"""dev helper: run one job in-process (no pool):  python dev1.py C01 quick 'H3-coeffs[d=2'"""
import sys, importlib, json
import os; sys.path.insert(0, '/verif'); sys.path.insert(0, os.environ.get('VERIF_REPO', '/repo'))
from lift import run
run.prepare_process()
mod = importlib.import_module('harness.' + sys.argv[1].lower())
for j in mod.jobs(sys.argv[2]):
    if sys.argv[3] in j.name:
        s = run.run_job(j, 0)
        for k in ('violations', 'errors', 'unknown', 'validation_mismatch'):
            for e in s[k][:5]:
                print(k, json.dumps(e, default=str)[:3000])
        print({k: v for k, v in s.items() if k not in ('violations', 'errors', 'unknown', 'validation_mismatch', 'samples', 'labels')})
