#!/bin/sh
# ./mut.sh <patch.diff> <command...>   apply a patch to /repo, run the command (cwd=/verif), ALWAYS undo the patch.
# Used only for testing the checks against seeded changes; nothing is ever committed to /repo from here.
P="$(realpath "$1")"; shift
cd "$(dirname "$0")"
if [ -n "$(git -C /repo status --porcelain --untracked-files=no)" ]; then echo "mut.sh: /repo has uncommitted changes, refusing"; exit 3; fi
trap 'git -C /repo checkout -- . >/dev/null 2>&1' EXIT INT TERM
git -C /repo apply "$(realpath "$P")" || { echo "mut.sh: patch does not apply"; exit 3; }
timeout ${T:-1500} "$@"
rc=$?
git -C /repo checkout -- .
exit $rc
