"""Shared helpers for the dimension-wise strategy harnesses (C03, C04, C05, C06, C13, C14)."""
import itertools

import numpy as np

from lift import core, lib
from lift.core import sym_and, sym_or, sym_not, sym_implies, is_sym


def mods():
    from sparseSpACE import spatiallyAdaptiveSingleDimension2 as SD
    from sparseSpACE import GridOperation, Grid, ErrorCalculator, RefinementObject, RefinementContainer
    return SD, GridOperation, Grid, ErrorCalculator, RefinementObject, RefinementContainer


def make_instance(f, a, b, boundary=True, version=6, rebalancing=True, margin=None, safety=0.1, modified=False,
                  reference=None, norm=np.inf, grid=None):
    SD, GO, G, EC, RO, RC = mods()
    d = len(a)
    a = np.array(a, dtype=object) if any(is_sym(x) for x in a) else np.array(a, dtype=float)
    b = np.array(b, dtype=object) if any(is_sym(x) for x in b) else np.array(b, dtype=float)
    if grid is None:
        grid = G.GlobalTrapezoidalGrid(a, b, boundary=boundary, modified_basis=modified)
    op = GO.Integration(f, grid=grid, dim=d, reference_solution=reference)
    sa = SD.SpatiallyAdaptiveSingleDimensions2(a, b, version=version, operation=op, rebalancing=rebalancing, margin=margin,
                                               rebalancing_safety_factor=safety, norm=norm)
    return sa, op, grid


def prepare_without_evaluation(sa, lmin, lmax, error_estimator, tol=0.0):
    """What performSpatiallyAdaptiv does before the loop (so that refine() can be driven directly)."""
    sa.errorEstimator = error_estimator
    sa.recalculate_frequently = False
    sa.print_output = False
    sa.reference_solution = sa.operation.get_reference_solution()
    sa.init_adaptive_combi(lmin, lmax, None, tol)
    sa.error_array = []
    sa.surplus_error_array = []
    sa.interpolation_error_arrayL2 = []
    sa.interpolation_error_arrayMax = []
    sa.num_point_array = []
    sa.test_scheme = False
    sa.reevaluate_at_end = False
    sa.do_plot = False
    sa.calculated_solution = None
    sa.solutions_storage = None
    sa.evaluation_points = None
    sa.single_step = False


def install_state(sa, d, xs, levels, lmax0):
    """Replace the refinement containers by the given state: per dimension sorted coordinates xs[k] and tree levels levels[k].
    lmax, coarsening levels and the adaptive scheme are produced by the real update_coarsening_values / raise_lmax."""
    SD, GO, G, EC, RO, RC = mods()
    conts = []
    for k in range(d):
        objs = []
        for i in range(len(xs[k]) - 1):
            objs.append(RO.RefinementObjectSingleDimension(xs[k][i], xs[k][i + 1], k, d, [levels[k][i], levels[k][i + 1]], grid=sa.grid,
                                                           coarsening_level=0, a=sa.a[k], b=sa.b[k], chebyshev=False))
        conts.append(RC.RefinementContainer(objs, k, sa.errorEstimator))
    sa.refinement = RC.MetaRefinementContainer(conts, calculate_volume_weights=False)
    sa.operation.refinement_container = sa.refinement
    for k in range(d):
        cont = sa.refinement.get_refinement_container_for_dim(k)
        upd = sa.update_coarsening_values(cont, k)
        if upd > 0:
            sa.raise_lmax(k, upd)
            cont.update_values(upd)
    sa.scheme = sa.combischeme.getCombiScheme(do_print=False)
    sa.subtraction_value_cache = {}
    sa.max_level_dict = {}


def container_state(sa, k):
    objs = list(sa.refinement.get_refinement_container_for_dim(k).get_objects())
    xs = [objs[0].start] + [o.end for o in objs]
    lv = [objs[0].levels[0]] + [o.levels[1] for o in objs]
    return objs, xs, lv


def structure_goals(S, sa, d, tag, a=None, b=None):
    """C06 well-formedness of the refinement structures of every dimension (strong tree invariant)."""
    for k in range(d):
        objs, xs, lv = container_state(sa, k)
        n = len(objs)
        S.prove(sym_and(*[objs[i].end == objs[i + 1].start for i in range(n - 1)]), tag + ':intervals-tile-without-gaps')
        S.prove(sym_and(*[o.start < o.end for o in objs]), tag + ':intervals-ascending-nonempty')
        S.prove(sym_and(objs[0].start == sa.a[k], objs[-1].end == sa.b[k]), tag + ':tiling-covers-[a,b]')
        S.prove(all(objs[i].levels[1] == objs[i + 1].levels[0] for i in range(n - 1)), tag + ':shared-point-levels-agree')
        S.prove(lv[0] == 0 and lv[-1] == 0, tag + ':end-points-have-level-0')
        S.prove(lib.valid_tree([int(x) for x in lv]), tag + ':levels-form-a-binary-refinement-tree')
        S.prove(all(o.coarsening_level == sa.lmax[k] - max(o.levels) for o in objs), tag + ':coarsening-is-lmax-minus-highest-end-level')
        S.prove(all(o.coarsening_level >= 0 for o in objs), tag + ':coarsening-never-negative')
        S.prove(sa.lmax[k] >= max(lv), tag + ':lmax-at-least-deepest-level')


class ScriptedErrors:
    """P3 error estimator: every call returns an arbitrary non-negative value (solver variable)."""

    def __init__(self, S, EC):
        self.S = S
        self.is_global = False

    def calc_error(self, refine_object, norm, volume_weights=None):
        v = self.S.fresh_real('err')
        self.S.assume(v >= 0)
        return v
