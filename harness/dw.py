"""Shared helpers for the dimension-wise strategy harnesses (C03, C04, C05, C06, C13, C14)."""
import itertools

import numpy as np

from lift import core, lib
from lift.core import sym_and, sym_or, sym_not, sym_implies, is_sym


def mods():
    from sparseSpACE import spatiallyAdaptiveSingleDimension2 as SD
    from sparseSpACE import GridOperation, Grid, ErrorCalculator, RefinementObject, RefinementContainer
    return SD, GridOperation, Grid, ErrorCalculator, RefinementObject, RefinementContainer


def make_instance(f, a, b, boundary=True, version=6, rebalancing=True, margin=None, safety=0.1, modified=False,
                  reference=None, norm=np.inf, grid=None):
    SD, GO, G, EC, RO, RC = mods()
    d = len(a)
    a = np.array(a, dtype=object) if any(is_sym(x) for x in a) else np.array(a, dtype=float)
    b = np.array(b, dtype=object) if any(is_sym(x) for x in b) else np.array(b, dtype=float)
    if grid is None:
        grid = G.GlobalTrapezoidalGrid(a, b, boundary=boundary, modified_basis=modified)
    op = GO.Integration(f, grid=grid, dim=d, reference_solution=reference)
    sa = SD.SpatiallyAdaptiveSingleDimensions2(a, b, version=version, operation=op, rebalancing=rebalancing, margin=margin,
                                               rebalancing_safety_factor=safety, norm=norm)
    return sa, op, grid


def prepare_without_evaluation(sa, lmin, lmax, error_estimator, tol=0.0):
    """What performSpatiallyAdaptiv does before the loop (so that refine() can be driven directly)."""
    sa.errorEstimator = error_estimator
    sa.recalculate_frequently = False
    sa.print_output = False
    sa.reference_solution = sa.operation.get_reference_solution()
    sa.init_adaptive_combi(lmin, lmax, None, tol)
    sa.error_array = []
    sa.surplus_error_array = []
    sa.interpolation_error_arrayL2 = []
    sa.interpolation_error_arrayMax = []
    sa.num_point_array = []
    sa.test_scheme = False
    sa.reevaluate_at_end = False
    sa.do_plot = False
    sa.calculated_solution = None
    sa.solutions_storage = None
    sa.evaluation_points = None
    sa.single_step = False


def install_state(sa, d, xs, levels, lmax0, lag=None):
    """Replace the refinement containers by the given state: per dimension sorted coordinates xs[k] and tree levels levels[k].
    lmax, coarsening levels and the adaptive scheme are produced by the real update_coarsening_values / raise_lmax."""
    SD, GO, G, EC, RO, RC = mods()
    conts = []
    for k in range(d):
        objs = []
        for i in range(len(xs[k]) - 1):
            objs.append(RO.RefinementObjectSingleDimension(xs[k][i], xs[k][i + 1], k, d, [levels[k][i], levels[k][i + 1]], grid=sa.grid,
                                                           coarsening_level=0, a=sa.a[k], b=sa.b[k], chebyshev=False))
        conts.append(RC.RefinementContainer(objs, k, sa.errorEstimator))
    sa.refinement = RC.MetaRefinementContainer(conts, calculate_volume_weights=False)
    sa.operation.refinement_container = sa.refinement
    for k in range(d):
        cont = sa.refinement.get_refinement_container_for_dim(k)
        upd = sa.update_coarsening_values(cont, k)
        if lag and lag.get(k, 0):
            # leave lmax `lag` levels behind the deepest level (the state before post-processing): coarsening values are the stale,
            # non-negative ones of such a state
            upd = max(0, upd - lag[k])
            if upd > 0:
                sa.raise_lmax(k, upd)
            for o in cont.get_objects():
                o.coarsening_level = max(0, sa.lmax[k] - max(o.levels))
            continue
        if upd > 0:
            sa.raise_lmax(k, upd)
            cont.update_values(upd)
    sa.scheme = sa.combischeme.getCombiScheme(do_print=False)
    sa.subtraction_value_cache = {}
    sa.max_level_dict = {}


def container_state(sa, k):
    objs = list(sa.refinement.get_refinement_container_for_dim(k).get_objects())
    xs = [objs[0].start] + [o.end for o in objs]
    lv = [objs[0].levels[0]] + [o.levels[1] for o in objs]
    return objs, xs, lv


def structure_goals(S, sa, d, tag, a=None, b=None):
    """C06 well-formedness of the refinement structures of every dimension (strong tree invariant)."""
    for k in range(d):
        objs, xs, lv = container_state(sa, k)
        n = len(objs)
        S.prove(sym_and(*[objs[i].end == objs[i + 1].start for i in range(n - 1)]), tag + ':intervals-tile-without-gaps')
        S.prove(sym_and(*[o.start < o.end for o in objs]), tag + ':intervals-ascending-nonempty')
        S.prove(sym_and(objs[0].start == sa.a[k], objs[-1].end == sa.b[k]), tag + ':tiling-covers-[a,b]')
        S.prove(all(objs[i].levels[1] == objs[i + 1].levels[0] for i in range(n - 1)), tag + ':shared-point-levels-agree')
        S.prove(lv[0] == 0 and lv[-1] == 0, tag + ':end-points-have-level-0')
        S.prove(lib.valid_tree([int(x) for x in lv]), tag + ':levels-form-a-binary-refinement-tree')
        S.prove(all(o.coarsening_level == sa.lmax[k] - max(o.levels) for o in objs), tag + ':coarsening-is-lmax-minus-highest-end-level')
        S.prove(all(o.coarsening_level >= 0 for o in objs), tag + ':coarsening-never-negative')
        S.prove(sa.lmax[k] >= max(lv), tag + ':lmax-at-least-deepest-level')


class ScriptedErrors:
    """P3 error estimator: every call returns an arbitrary non-negative value (solver variable)."""

    def __init__(self, S, EC):
        self.S = S
        self.is_global = False

    def calc_error(self, refine_object, norm, volume_weights=None):
        v = self.S.fresh_real('err')
        self.S.assume(v >= 0)
        return v


# ---------------------------------------------------------------------------------------------------
def subsets_upto(n, m):
    """All non-empty index subsets of range(n) with at most m elements, plus the full set (all benefits equal)."""
    out = []
    for r in range(1, m + 1):
        out.extend(itertools.combinations(range(n), r))
    if n > m:
        out.append(tuple(range(n)))
    return out


def all_objects(sa, d):
    return [(k, i, o) for k in range(d) for i, o in enumerate(sa.refinement.get_refinement_container_for_dim(k).get_objects())]


def scripted_refine(S, sa, d, step, max_sel):
    """One real refine() with a solver-chosen set of selected intervals (benefit 1, all others 0)."""
    objs = all_objects(sa, d)
    subs = subsets_upto(len(objs), max_sel)
    c = S.choice('sel%d' % step, len(subs))
    sel = set(subs[c])
    for n, (k, i, o) in enumerate(objs):
        o.benefit = 1.0 if n in sel else 0.0
        o.error = o.benefit
    sa.benefit_max = sa.refinement.get_max_benefit()
    sa.refine()
    return [(objs[n][0], objs[n][1]) for n in sorted(sel)]


def grid_goals(S, sa, d, f, tag, boundary, check_interp=True, out_len=1):
    """C03: validity of the nested combination in the current refinement state."""
    stripes = {}
    ok_sorted = ok_ends = ok_dep = True
    grids = []
    for cg in sa.scheme:
        lv = tuple(int(x) for x in cg.levelvector)
        coords, levels, children = sa.get_point_coord_for_each_dim(cg.levelvector)
        for k in range(d):
            c = [float(x) for x in coords[k]]
            ok_sorted = ok_sorted and all(c[i] < c[i + 1] for i in range(len(c) - 1))
            ok_ends = ok_ends and c[0] == float(sa.a[k]) and c[-1] == float(sa.b[k])
            key = (k, lv[k])
            if key in stripes:
                ok_dep = ok_dep and stripes[key] == c
            else:
                stripes[key] = c
            ok_dep = ok_dep and len(levels[k]) == len(c)
        grids.append((cg, [[float(x) for x in coords[k]] for k in range(d)]))
    S.prove(ok_sorted, tag + ':1d-point-sets-strictly-sorted')
    S.prove(ok_ends, tag + ':1d-point-sets-contain-domain-end-points')
    S.prove(ok_dep, tag + ':1d-point-set-depends-only-on-(dimension,level)')
    ok_mono = True
    for (k, l), c in stripes.items():
        if (k, l + 1) in stripes:
            ok_mono = ok_mono and set(c) <= set(stripes[(k, l + 1)])
    S.prove(ok_mono, tag + ':1d-point-sets-grow-monotonically-with-level')
    count = {}
    for cg, coords in grids:
        use = coords if boundary else [c[1:-1] for c in coords]
        pts_real = set(tuple(float(x) for x in p) for p in sa.get_points_component_grid(cg.levelvector))
        mine = set(itertools.product(*use))
        S.prove(pts_real == mine, tag + ':component-grid-is-the-tensor-product-of-its-1d-sets')
        for p in mine:
            count[p] = count.get(p, 0) + cg.coefficient
    S.prove(all(v == 1 for v in count.values()), tag + ':coefficients-sum-to-one-at-every-sparse-grid-point')
    S.prove(sum(cg.coefficient for cg in sa.scheme) == 1, tag + ':coefficients-sum-to-one')
    if check_interp:
        pts = sorted(count)
        vals = sa(pts)
        ok = True
        for p, v in zip(pts, vals):
            want = f.F(list(p))
            ok = sym_and(ok, *[v[j] == want[j] for j in range(out_len)])
        S.prove(ok, tag + ':combined-interpolant-reproduces-F-at-every-sparse-grid-point')
    return count


class ZeroErrors:
    """Estimator that reports 0 everywhere and makes the strategy skip its surplus computation (used when only the
    combined value / interpolant of a given refinement state is of interest)."""
    is_global = True

    def calc_global_error(self, data, grid_scheme):
        return None

    def calc_error(self, refine_object, norm, volume_weights=None):
        return 0.0


def evaluate_state(sa):
    """Real evaluate_operation() on the current refinement state; returns the combined result."""
    sa.operation.validation_set = None
    sa.evaluate_operation()
    return sa.operation.get_result()
