"""C15 — weighted UQ quadrature is a probability measure; moments transform correctly.

W  GlobalTrapezoidalGridWeighted.compute_weights / compute_1D_quad_weights (through set_grid) with an ABSTRACT distribution (P3):
   per interval a symbolic zeroth moment m0 >= 0 and first moment m1 strictly inside (x_i*m0, x_{i+1}*m0) when m0 > 0 (= the
   distribution has a density), sum m0 = 1; symbolic sorted grid (n <= 5) or enumerated dyadic trees (n <= 17):
   weights >= 0, sum = 1, boundary off: end weights 0 and inner weights renormalised to 1.  Covers every distribution with a density.
U  uniform distribution through the real UQDistribution (pdf/cdf given, first moment by an exact quadrature stand-in for
   scipy.integrate.quad): weights == unweighted trapezoidal weights / (b - a).
M  get_middle_weighted with an abstract strictly increasing cdf and its exact inverse: a < mid < b and cdf(mid) == (cdf(a)+cdf(b))/2;
   with an arbitrary (inexact) ppf the returned point is still strictly inside.
E  expectation/variance from the combined moments on one weighted grid (real FunctionPower / FunctionConcatenate /
   UncertaintyQuantification / dimension-wise strategy / moments_to_expectation_variance), uninterpreted model F, symbolic c, e:
   E[cF+e] = cE[F]+e, Var[cF+e] = c^2 Var[F], Var >= 0, constant model => E = const, Var = 0.
"""
import types
from fractions import Fraction

import numpy as np

from lift import core, lib
from lift.core import sym_and, sym_or, sym_not, sym_implies, is_sym
from lift.run import Job
from harness import dw

PROPERTY = 'C15'


def _G():
    from sparseSpACE import Grid
    return Grid


class AbstractDistribution:
    """Any distribution with a density, seen through the two moment queries the grid makes."""

    def __init__(self, S, nintervals):
        self.S = S
        # the masses of the n-1 grid intervals: non-negative, total mass of [a,b] is 1 (fixed before the code under test runs)
        self.m0s = []
        for i in range(nintervals):
            m0 = S.real('m0_%d' % i)
            S.assume(m0 >= 0)
            self.m0s.append(m0)
        if nintervals:
            S.assume(sum(self.m0s) == 1)
        self.k = 0

    def get_zeroth_moment(self, x1, x2):
        m0 = self.m0s[self.k]
        self.k += 1
        self._last = (x1, x2, m0)
        return m0

    def get_first_moment(self, x1, x2):
        S = self.S
        m1 = S.fresh_real('m1')
        _, _, m0 = self._last
        # density contract: the conditional mean of a non-degenerate interval lies strictly inside it; no mass -> no moment
        S.assume(sym_implies(m0 > 0, sym_and(m1 > x1 * m0, m1 < x2 * m0)))
        S.assume(sym_implies(m0 == 0, m1 == 0))
        return m1


class _Op:
    def __init__(self, distrs):
        self.d = distrs

    def get_distributions(self):
        return self.d


def weights(S, n, boundary, coords):
    G = _G()
    if coords == 'sym':
        xs = lib.sorted_reals(S, 'x', n)
        lv = [0] * n
    else:
        lv = lib.tree_levels(S, 'tree', n)
        xs = lib.dyadic_coords(lv, 0.0, 1.0)
    a, b = xs[0], xs[-1]
    dist = AbstractDistribution(S, n - 1)
    grid = G.GlobalTrapezoidalGridWeighted([a], [b], _Op([dist]), boundary=boundary)
    grid.set_grid([list(xs)], [lv])
    w = list(grid.weights[0])  # without boundary: the inner weights
    S.observe('w', w)
    S.prove(sym_and(*[wi >= 0 for wi in w]), 'weights:non-negative')
    S.prove(S.eq(sum(w), 1), 'weights:sum-to-one')
    S.prove(len(w) == (n if boundary else n - 2), 'weights:one-per-grid-point')


def weights_direct(S, n, boundary):
    """The static compute_weights incl. the end weights (boundary off: they must be exactly 0)."""
    G = _G()
    xs = lib.sorted_reals(S, 'x', n)
    dist = AbstractDistribution(S, n - 1)
    w = list(G.GlobalTrapezoidalGridWeighted.compute_weights(list(xs), xs[0], xs[-1], dist, boundary, False))
    S.prove(sym_and(*[wi >= 0 for wi in w]), 'weights:non-negative')
    S.prove(S.eq(sum(w), 1), 'weights:sum-to-one')
    if not boundary and n >= 3:
        S.prove(sym_and(w[0] == 0, w[-1] == 0), 'weights:end-weights-vanish-without-boundary')


# ---------------------------------------------------------------------------------------------------
def _exact_quad(func, x1, x2, **kw):
    """Stand-in for scipy.integrate.quad: Boole's rule (exact up to degree 5) - exact for x*pdf(x) with a polynomial pdf of degree <= 4."""
    nodes = [Fraction(k, 4) for k in range(5)]
    wts = [Fraction(7, 90), Fraction(32, 90), Fraction(12, 90), Fraction(32, 90), Fraction(7, 90)]
    tot = 0
    for t, w in zip(nodes, wts):
        tot = tot + w * func(x1 + (x2 - x1) * t)
    return tot * (x2 - x1), 0.0


class _IntegrateFacade(types.ModuleType):
    def __init__(self):
        super().__init__('integrate_facade')
        self.quad = _exact_quad


def uniform(S, n, boundary, coords='sym'):
    from sparseSpACE import GridOperation as GO
    G = _G()
    if coords == 'sym':
        xs = lib.sorted_reals(S, 'x', n)
    else:
        xs = lib.dyadic_coords(lib.tree_levels(S, 'tree', n), 2.0, 6.0)
    a, b = xs[0], xs[-1]
    dist = GO.UQDistribution(lambda x: 1 / (b - a), lambda x: (x - a) / (b - a), lambda p: a + p * (b - a))
    if S.lifted:
        dist.cached_moments = [_NoCache(), _NoCache()]  # the cache is keyed by coordinates (hash of symbolic reals)
    grid = G.GlobalTrapezoidalGridWeighted([a], [b], _Op([dist]), boundary=boundary)
    grid.set_grid([list(xs)], [[0] * n])
    w = list(grid.weights[0])
    ref = list(G.GlobalTrapezoidalGrid.compute_weights(list(xs), a, b, False))
    if boundary:
        S.prove(sym_and(*[S.eq(w[i], ref[i] / (b - a)) for i in range(n)]), 'uniform:weights-are-trapezoidal-weights-over-length')
    else:
        inner = ref[1:-1]
        tot = sum(inner)
        # concrete coordinates here: the arithmetic is done in floats, so compare with a rounding tolerance
        S.prove(sym_and(*[S.eq(w[i], inner[i] / tot, 1.0, 1e-12) for i in range(n - 2)]), 'uniform:inner-weights-are-renormalised-trapezoidal-weights')
    S.prove(S.eq(sum(w), 1, 1.0, None if boundary else 1e-12), 'uniform:sum-to-one')


class _NoCache(dict):
    def __contains__(self, k):
        return False

    def __setitem__(self, k, v):
        pass


# ---------------------------------------------------------------------------------------------------
def midpoint(S, exact_inverse):
    G = _G()
    a, b = S.real('a'), S.real('b')
    S.assume(a < b)
    ca, cb = S.real('cdf_a'), S.real('cdf_b')
    S.assume(ca < cb)  # strictly increasing cdf
    S.assume(ca >= 0)
    S.assume(cb <= 1)
    m = S.real('ppf_value')
    calls = {}

    def cdf(x):
        if x is a:
            return ca
        if x is b:
            return cb
        raise AssertionError('cdf queried at an unexpected point')

    def ppf(p):
        calls['p'] = p
        if exact_inverse:
            S.assume(a < m)
            S.assume(m < b)  # ca < p < cb and cdf strictly increasing, ppf its exact inverse
        return m

    mid = G.GlobalTrapezoidalGridWeighted.get_middle_weighted(a, b, cdf, ppf)
    S.observe('mid', mid)
    S.prove(sym_and(a < mid, mid < b), 'midpoint:strictly-inside')
    S.prove(S.eq(calls['p'], (ca + cb) / 2), 'midpoint:ppf-queried-at-half-the-probability')
    if exact_inverse:
        S.prove(S.eq(mid, m), 'midpoint:equal-probability-split')  # cdf(mid) = cdf(ppf(p)) = p = (cdf(a)+cdf(b))/2


# ---------------------------------------------------------------------------------------------------
def moments(S, d, rounds, constant_model):
    from sparseSpACE import GridOperation as GO
    from sparseSpACE import Function as FM
    SD, _, G, EC, RO, RC = dw.mods()
    a = np.zeros(d)
    b = np.ones(d)
    c, e = S.real('c'), S.real('e')
    if constant_model:
        k = S.real('const')

        class Const(FM.Function):
            def eval(self, x):
                return [k]

            def eval_vectorized(self, coordinates):
                coordinates = np.asarray(coordinates)
                out = np.empty(coordinates.shape[:-1] + (1,), dtype=object if S.lifted else float)
                for idx in np.ndindex(coordinates.shape[:-1]):
                    out[idx] = k
                return out

        f = Const()
    else:
        f = lib.make_function(S, 'F', d, 1)

    class Affine(FM.Function):
        def eval(self, x):
            return [c * f(tuple(x))[0] + e]

        def eval_vectorized(self, coordinates):
            coordinates = np.asarray(coordinates)
            out = np.empty(coordinates.shape[:-1] + (1,), dtype=object if S.lifted else float)
            for idx in np.ndindex(coordinates.shape[:-1]):
                out[idx] = self.eval(tuple(coordinates[idx]))[0]
            return out

    g = Affine()
    model = FM.FunctionConcatenate([f, g])
    full = FM.FunctionConcatenate([model, FM.FunctionPower(model, 2)])
    op = GO.UncertaintyQuantification(full, 'Uniform', a, b, dim=d)
    if S.lifted:
        for dist in op.get_distributions():
            dist.cached_moments = [_NoCache(), _NoCache()]
    grid = G.GlobalTrapezoidalGridWeighted(a, b, op, boundary=True)
    op.set_grid(grid)
    sa = SD.SpatiallyAdaptiveSingleDimensions2(a, b, operation=op, norm=np.inf)
    dw.prepare_without_evaluation(sa, 1, 2, dw.ZeroErrors())
    sa.refinements = 0
    sa.counter = 1
    for step in range(rounds):
        dw.scripted_refine(S, sa, d, step, 1)
    dw.evaluate_state(sa)
    (E, V) = op.calculate_expectation_and_variance(sa)
    E = list(E)
    V = list(V)
    S.observe('E', E)
    S.prove(S.eq(E[1], c * E[0] + e), 'moments:E[cF+e]=cE[F]+e')
    S.prove(S.eq(V[1], c * c * V[0]), 'moments:Var[cF+e]=c^2Var[F]')
    S.prove(sym_and(V[0] >= 0, V[1] >= 0), 'moments:variance-non-negative')
    if constant_model:
        S.prove(sym_and(S.eq(E[0], k), S.eq(V[0], 0)), 'moments:constant-model')


def _uniform_pdf_shims():
    """Uniform chaospy distribution members are compiled; in lifted mode the UQDistribution of a Uniform is given by its formulas."""
    return [('sparseSpACE.GridOperation', 'integrate', _IntegrateFacade())]


BOUNDS = {
    'quick': {'abstract distribution: symbolic grid n': [2, 5], 'abstract distribution: dyadic trees n': [3, 9], 'uniform: symbolic grid n': [2, 6],
              'moments': 'd=1 dimension-wise (lmin,lmax)=(1,2), 0..1 scripted refinements; d=2 initial grid'},
    'thorough': {'abstract distribution: symbolic grid n': [2, 5], 'abstract distribution: dyadic trees n': [3, 11], 'uniform: symbolic grid n': [2, 9],
                 'moments': 'd=1 dimension-wise (lmin,lmax)=(1,2), 0..2 scripted refinements; d=2 initial grid'},
}

META = {
    'functions': ['GlobalTrapezoidalGridWeighted.compute_weights/compute_1D_quad_weights/get_middle_weighted/get_mid_point', 'GlobalGrid.set_grid', 'UQDistribution.get_zeroth_moment/get_first_moment',
                  'UncertaintyQuantification.__init__/_prepare_distributions/calculate_expectation_and_variance/moments_to_expectation_variance/_get_combiintegral', 'FunctionPower', 'FunctionConcatenate',
                  'SpatiallyAdaptiveSingleDimensions2 (evaluation on the weighted grid)'],
    'bounds': BOUNDS,
    'assumptions': ['abstract distribution contract: per interval m0 >= 0; m0 > 0 => x_i*m0 < m1 < x_{i+1}*m0 (density: no atoms on grid points); m0 = 0 => m1 = 0; sum of m0 over [a,b] = 1',
                    'scipy.integrate.quad replaced by Boole\'s rule (exact for the polynomial integrands of the uniform distribution); its QUADPACK accuracy (epsrel=1e-2) for other densities is outside',
                    'midpoint: cdf strictly increasing, ppf its exact inverse (or arbitrary for the containment goal)',
                    'moments: uniform distribution on [0,1]^d through chaospy for construction only; values through the formulas above'],
    'outside': ['chaospy internals, PCE', 'triangle/normal closed forms and the accuracy of their numerically integrated first moments (only via the abstract contract)',
                'GlobalLagrangeGridWeighted / high-order weighted grids', 'infinite supports'],
}

MANIFEST_ENTRY = {
    'text': 'The weighted trapezoidal weights are computed by the real code from an abstract distribution whose interval moments are solver variables constrained only by "has a density"; '
            'non-negativity and normalisation are decided for all such distributions and all grids within the bound; moment transformation laws are polynomial identities over an uninterpreted model.',
    'note': 'Trusted: z3, LIFT proxies/numpy facade, the quad stand-in for the uniform case.',
}


def jobs(tier):
    q = tier == 'quick'
    b = BOUNDS[tier]
    extra = _uniform_pdf_shims()
    js = []
    lo, hi = b['abstract distribution: symbolic grid n']
    for n in range(lo, hi + 1):
        for boundary in (True, False):
            if not boundary and n < 4:
                continue
            js.append(Job('weights[sym,n=%d,%s]' % (n, 'b' if boundary else 'nb'), weights, {'n': n, 'boundary': boundary, 'coords': 'sym'}, timeout_ms=30000))
            js.append(Job('weights-direct[n=%d,%s]' % (n, 'b' if boundary else 'nb'), weights_direct, {'n': n, 'boundary': boundary}, timeout_ms=30000))
    lo, hi = b['abstract distribution: dyadic trees n']
    for n in range(lo, hi + 1):
        for boundary in (True, False):
            if not boundary and n < 4:
                continue
            js.append(Job('weights[tree,n=%d,%s]' % (n, 'b' if boundary else 'nb'), weights, {'n': n, 'boundary': boundary, 'coords': 'tree'},
                          validate=(13 if q else 5), budget_s=(600 if q else 3000)))
    lo, hi = b['uniform: symbolic grid n']
    for n in range(lo, hi + 1):
        for boundary in (True, False):
            if not boundary and n < 4:
                continue
            # without boundary the renormalisation divides by the inner weight sum (a quotient of solver variables): dyadic trees on [2,6] instead
            js.append(Job('uniform[n=%d,%s]' % (n, 'b' if boundary else 'nb'), uniform, {'n': n, 'boundary': boundary, 'coords': 'sym' if boundary else 'tree'},
                          extra_shims=extra, validate=(5 if q else 2)))
    js.append(Job('midpoint[exact-inverse]', midpoint, {'exact_inverse': True}))
    js.append(Job('midpoint[arbitrary-ppf]', midpoint, {'exact_inverse': False}))
    for d in (1, 2):
        for rounds in ((0, 1) if q else (0, 1, 2)):
            for const in (False, True):
                if d == 2 and rounds > 0:
                    continue  # 21+ grid points: the variance queries (quadratic forms in all nodal values) exceed the solver cap
                js.append(Job('moments[d=%d,rounds=%d%s]' % (d, rounds, ',const' if const else ''), moments, {'d': d, 'rounds': rounds, 'constant_model': const},
                              extra_shims=extra, validate=(3 if q else 1), budget_s=(600 if q else 3000), timeout_ms=60000))
    return js
