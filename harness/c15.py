"""C15 — weighted UQ quadrature is a probability measure; moments transform correctly.

W  GlobalTrapezoidalGridWeighted.compute_weights / compute_1D_quad_weights (through set_grid) with an ABSTRACT distribution (P3):
   per interval a symbolic zeroth moment m0 >= 0 and first moment m1 strictly inside (x_i*m0, x_{i+1}*m0) when m0 > 0 (= the
   distribution has a density), sum m0 = 1; symbolic sorted grid (n <= 5) or enumerated dyadic trees (n <= 17):
   weights >= 0, sum = 1, boundary off: end weights 0 and inner weights renormalised to 1.  Covers every distribution with a density.
U  uniform distribution through the real UQDistribution (pdf/cdf given, first moment by an exact quadrature stand-in for
   scipy.integrate.quad): weights == unweighted trapezoidal weights / (b - a).
M  get_middle_weighted with an abstract strictly increasing cdf and its exact inverse: a < mid < b and cdf(mid) == (cdf(a)+cdf(b))/2;
   with an arbitrary (inexact) ppf the returned point is still strictly inside.
E  expectation/variance from the combined moments on one weighted grid (real FunctionPower / FunctionConcatenate /
   UncertaintyQuantification / dimension-wise strategy / moments_to_expectation_variance), uninterpreted model F, symbolic c, e:
   E[cF+e] = cE[F]+e, Var[cF+e] = c^2 Var[F], Var >= 0, constant model => E = const, Var = 0.
"""
import types
from fractions import Fraction

import numpy as np

from lift import core, lib
from lift.core import sym_and, sym_or, sym_not, sym_implies, is_sym
from lift.run import Job
from harness import dw

PROPERTY = 'C15'


def _G():
    from sparseSpACE import Grid
    return Grid


class AbstractDistribution:
    """Any distribution with a density, seen through the two moment queries the grid makes."""

    def __init__(self, S, nintervals, partial=False):
        self.S = S
        # the masses of the n-1 grid intervals: non-negative, total mass of [a,b] is 1 (fixed before the code under test runs)
        self.m0s = []
        for i in range(nintervals):
            m0 = S.real('m0_%d' % i)
            S.assume(m0 >= 0)
            self.m0s.append(m0)
        if nintervals and not partial:
            S.assume(sum(self.m0s) == 1)
        elif nintervals:
            # a distribution whose support is larger than the (finite) domain, e.g. a Normal on user-chosen bounds: the domain carries only
            # part of the probability mass
            S.assume(sum(self.m0s) <= 1)
        self.k = 0

    def get_zeroth_moment(self, x1, x2):
        m0 = self.m0s[self.k]
        self.k += 1
        self._last = (x1, x2, m0)
        return m0

    def get_first_moment(self, x1, x2):
        S = self.S
        m1 = S.fresh_real('m1')
        _, _, m0 = self._last
        # density contract: the conditional mean of a non-degenerate interval lies strictly inside it; no mass -> no moment
        S.assume(sym_implies(m0 > 0, sym_and(m1 > x1 * m0, m1 < x2 * m0)))
        S.assume(sym_implies(m0 == 0, m1 == 0))
        return m1


class _Op:
    def __init__(self, distrs):
        self.d = distrs

    def get_distributions(self):
        return self.d


def weights(S, n, boundary, coords, partial=False):
    G = _G()
    if coords == 'sym':
        xs = lib.sorted_reals(S, 'x', n)
        lv = [0] * n
    else:
        lv = lib.tree_levels(S, 'tree', n)
        xs = lib.dyadic_coords(lv, 0.0, 1.0)
    a, b = xs[0], xs[-1]
    dist = AbstractDistribution(S, n - 1, partial)
    if partial:
        # the inner weights are renormalised by their sum: it must not vanish (some mass strictly inside the inner points' reach)
        S.assume(sum(dist.m0s[1:-1]) > 0)
    grid = G.GlobalTrapezoidalGridWeighted([a], [b], _Op([dist]), boundary=boundary)
    grid.set_grid([list(xs)], [lv])
    w = list(grid.weights[0])  # without boundary: the inner weights
    S.observe('w', w)
    S.prove(sym_and(*[wi >= 0 for wi in w]), 'weights:non-negative')
    if partial and boundary:
        S.prove(S.eq(sum(w), sum(dist.m0s)), 'weights:sum-to-the-probability-mass-of-the-domain')
    else:
        S.prove(S.eq(sum(w), 1), 'weights:sum-to-one')
    S.prove(len(w) == (n if boundary else n - 2), 'weights:one-per-grid-point')


def weights_direct(S, n, boundary):
    """The static compute_weights incl. the end weights (boundary off: they must be exactly 0)."""
    G = _G()
    xs = lib.sorted_reals(S, 'x', n)
    dist = AbstractDistribution(S, n - 1)
    w = list(G.GlobalTrapezoidalGridWeighted.compute_weights(list(xs), xs[0], xs[-1], dist, boundary, False))
    S.prove(sym_and(*[wi >= 0 for wi in w]), 'weights:non-negative')
    S.prove(S.eq(sum(w), 1), 'weights:sum-to-one')
    if not boundary and n >= 3:
        S.prove(sym_and(w[0] == 0, w[-1] == 0), 'weights:end-weights-vanish-without-boundary')


# ---------------------------------------------------------------------------------------------------
def _exact_quad(func, x1, x2, **kw):
    """Stand-in for scipy.integrate.quad: Boole's rule (exact up to degree 5) - exact for x*pdf(x) with a polynomial pdf of degree <= 4."""
    nodes = [Fraction(k, 4) for k in range(5)]
    wts = [Fraction(7, 90), Fraction(32, 90), Fraction(12, 90), Fraction(32, 90), Fraction(7, 90)]
    tot = 0
    for t, w in zip(nodes, wts):
        tot = tot + w * func(x1 + (x2 - x1) * t)
    return tot * (x2 - x1), 0.0


class _IntegrateFacade(types.ModuleType):
    def __init__(self):
        super().__init__('integrate_facade')
        self.quad = _exact_quad


def uniform(S, n, boundary, coords='sym'):
    from sparseSpACE import GridOperation as GO
    G = _G()
    if coords == 'sym':
        xs = lib.sorted_reals(S, 'x', n)
    else:
        xs = lib.dyadic_coords(lib.tree_levels(S, 'tree', n), 2.0, 6.0)
    a, b = xs[0], xs[-1]
    dist = GO.UQDistribution(lambda x: 1 / (b - a), lambda x: (x - a) / (b - a), lambda p: a + p * (b - a))
    if S.lifted:
        dist.cached_moments = [_NoCache(), _NoCache()]  # the cache is keyed by coordinates (hash of symbolic reals)
    grid = G.GlobalTrapezoidalGridWeighted([a], [b], _Op([dist]), boundary=boundary)
    grid.set_grid([list(xs)], [[0] * n])
    w = list(grid.weights[0])
    ref = list(G.GlobalTrapezoidalGrid.compute_weights(list(xs), a, b, False))
    if boundary:
        S.prove(sym_and(*[S.eq(w[i], ref[i] / (b - a)) for i in range(n)]), 'uniform:weights-are-trapezoidal-weights-over-length')
    else:
        inner = ref[1:-1]
        tot = sum(inner)
        # concrete coordinates here: the arithmetic is done in floats, so compare with a rounding tolerance
        S.prove(sym_and(*[S.eq(w[i], inner[i] / tot, 1.0, 1e-12) for i in range(n - 2)]), 'uniform:inner-weights-are-renormalised-trapezoidal-weights')
    S.prove(S.eq(sum(w), 1, 1.0, None if boundary else 1e-12), 'uniform:sum-to-one')


def uniform_cache(S, n, boundary):
    """The moment cache of UQDistribution (keyed by interval) stays ACTIVE: one distribution object and one weighted grid object see two
    refinement trees one after the other (the second a solver-chosen other tree, sharing intervals with the first), on [2,6] and then - same
    objects - again.  Every time the weights are the trapezoidal weights over the length (renormalised without boundary)."""
    from sparseSpACE import GridOperation as GO
    G = _G()
    a, b = 2.0, 6.0
    dist = GO.UQDistribution(lambda x: 1 / (b - a), lambda x: (x - a) / (b - a), lambda p: a + p * (b - a))
    grid = G.GlobalTrapezoidalGridWeighted([a], [b], _Op([dist]), boundary=boundary)
    trees = [lib.tree_levels(S, 'tree', n), lib.tree_levels(S, 'tree2', n + 1)]
    for rnd, t in enumerate(trees + trees[:1]):
        xs = lib.dyadic_coords(t, a, b)
        grid.set_grid([list(xs)], [[0] * len(xs)])
        w = list(grid.weights[0])
        ref = list(G.GlobalTrapezoidalGrid.compute_weights(list(xs), a, b, False))
        if boundary:
            S.prove(sym_and(*[S.eq(w[i], ref[i] / (b - a), 1.0, 1e-12) for i in range(len(xs))]), 'uniform-cache:weights-are-trapezoidal-weights-over-length-(grid %d on the same objects)' % (rnd + 1))
        else:
            inner = ref[1:-1]
            tot = sum(inner)
            S.prove(sym_and(*[S.eq(w[i], inner[i] / tot, 1.0, 1e-12) for i in range(len(xs) - 2)]), 'uniform-cache:inner-weights-are-renormalised-trapezoidal-weights-(grid %d on the same objects)' % (rnd + 1))
    S.observe('cached intervals', len(dist.cached_moments[0]))


class _NoCache(dict):
    def __contains__(self, k):
        return False

    def __setitem__(self, k, v):
        pass


# ---------------------------------------------------------------------------------------------------
def midpoint(S, exact_inverse):
    G = _G()
    a, b = S.real('a'), S.real('b')
    S.assume(a < b)
    ca, cb = S.real('cdf_a'), S.real('cdf_b')
    S.assume(ca < cb)  # strictly increasing cdf
    S.assume(ca >= 0)
    S.assume(cb <= 1)
    m = S.real('ppf_value')
    calls = {}

    def cdf(x):
        if x is a:
            return ca
        if x is b:
            return cb
        raise AssertionError('cdf queried at an unexpected point')

    def ppf(p):
        calls['p'] = p
        if exact_inverse:
            S.assume(a < m)
            S.assume(m < b)  # ca < p < cb and cdf strictly increasing, ppf its exact inverse
        return m

    mid = G.GlobalTrapezoidalGridWeighted.get_middle_weighted(a, b, cdf, ppf)
    S.observe('mid', mid)
    S.prove(sym_and(a < mid, mid < b), 'midpoint:strictly-inside')
    S.prove(S.eq(calls['p'], (ca + cb) / 2), 'midpoint:ppf-queried-at-half-the-probability')
    if exact_inverse:
        S.prove(S.eq(mid, m), 'midpoint:equal-probability-split')  # cdf(mid) = cdf(ppf(p)) = p = (cdf(a)+cdf(b))/2


# ---------------------------------------------------------------------------------------------------
def moments(S, d, rounds, constant_model):
    from sparseSpACE import GridOperation as GO
    from sparseSpACE import Function as FM
    SD, _, G, EC, RO, RC = dw.mods()
    a = np.zeros(d)
    b = np.ones(d)
    c, e = S.real('c'), S.real('e')
    if constant_model:
        k = S.real('const')

        class Const(FM.Function):
            def eval(self, x):
                return [k]

            def eval_vectorized(self, coordinates):
                coordinates = np.asarray(coordinates)
                out = np.empty(coordinates.shape[:-1] + (1,), dtype=object if S.lifted else float)
                for idx in np.ndindex(coordinates.shape[:-1]):
                    out[idx] = k
                return out

        f = Const()
    else:
        f = lib.make_function(S, 'F', d, 1)

    class Affine(FM.Function):
        def eval(self, x):
            return [c * f(tuple(x))[0] + e]

        def eval_vectorized(self, coordinates):
            coordinates = np.asarray(coordinates)
            out = np.empty(coordinates.shape[:-1] + (1,), dtype=object if S.lifted else float)
            for idx in np.ndindex(coordinates.shape[:-1]):
                out[idx] = self.eval(tuple(coordinates[idx]))[0]
            return out

    g = Affine()
    model = FM.FunctionConcatenate([f, g])
    full = FM.FunctionConcatenate([model, FM.FunctionPower(model, 2)])
    op = GO.UncertaintyQuantification(full, 'Uniform', a, b, dim=d)
    if S.lifted:
        for dist in op.get_distributions():
            dist.cached_moments = [_NoCache(), _NoCache()]
    grid = G.GlobalTrapezoidalGridWeighted(a, b, op, boundary=True)
    op.set_grid(grid)
    sa = SD.SpatiallyAdaptiveSingleDimensions2(a, b, operation=op, norm=np.inf)
    dw.prepare_without_evaluation(sa, 1, 2, dw.ZeroErrors())
    sa.refinements = 0
    sa.counter = 1
    for step in range(rounds):
        dw.scripted_refine(S, sa, d, step, 1)
    dw.evaluate_state(sa)
    (E, V) = op.calculate_expectation_and_variance(sa)
    E = list(E)
    V = list(V)
    S.observe('E', E)
    S.prove(S.eq(E[1], c * E[0] + e), 'moments:E[cF+e]=cE[F]+e')
    S.prove(S.eq(V[1], c * c * V[0]), 'moments:Var[cF+e]=c^2Var[F]')
    S.prove(sym_and(V[0] >= 0, V[1] >= 0), 'moments:variance-non-negative')
    if constant_model:
        S.prove(sym_and(S.eq(E[0], k), S.eq(V[0], 0)), 'moments:constant-model')
    # reading the statistics is an observation: asking again (same combined moments, no re-evaluation in between) gives the same numbers,
    # and the combined moments themselves are left as they were
    res_before = [x for x in np.ravel(op.get_result())]
    (E2, V2) = op.calculate_expectation_and_variance(sa)
    S.prove(sym_and(*([S.eq(x, y) for x, y in zip(E, list(E2))] + [S.eq(x, y) for x, y in zip(V, list(V2))])), 'moments:asking-twice-gives-the-same-expectation-and-variance')
    res_after = [x for x in np.ravel(op.get_result())]
    S.prove(sym_and(*[S.eq(x, y) for x, y in zip(res_before, res_after)]), 'moments:reading-the-statistics-leaves-the-combined-moments-unchanged')


# ---------------------------------------------------------------------------------------------------
class _CpDist:
    """Lifted-mode stand-in for a chaospy distribution: the closed forms of pdf / cdf / inverse (chaospy itself is compiled numpy code)."""

    def __init__(self, kind, params, pdf, cdf, inv):
        self.kind, self.params, self.pdf, self.cdf, self.inv = kind, params, pdf, cdf, inv


def _tri_cdf(lo, mid, up):
    def cdf(x):
        left = (x - lo) * (x - lo) / ((up - lo) * (mid - lo))
        right = 1 - (up - x) * (up - x) / ((up - lo) * (up - mid))
        return core.ite(x <= mid, left, right) if is_sym(x) or is_sym(mid) else (left if x <= mid else right)
    return cdf


class _CpFacade(types.ModuleType):
    """`cp` as seen by GridOperation in lifted runs.  Normal/Laplace objects are only stored by _prepare_distributions (the library takes their
    pdf/cdf/ppf from scipy.stats, see _SpsFacade); J(...) is stored as well."""

    def __init__(self, S):
        super().__init__('cp_facade')
        self.S = S

    def Uniform(self, lower=0, upper=1):
        return _CpDist('Uniform', (lower, upper), lambda x: 1 / (upper - lower), lambda x: (x - lower) / (upper - lower), lambda q: lower + q * (upper - lower))

    def Triangle(self, lower, midpoint, upper):
        inv = self.S.func('triangle_inv', 4)
        return _CpDist('Triangle', (lower, midpoint, upper), None, _tri_cdf(lower, midpoint, upper), lambda q: inv([q, lower, midpoint, upper])[0])

    def Normal(self, mu=0, sigma=1):
        return _CpDist('Normal', (mu, sigma), None, None, None)

    def Laplace(self, mu=0, sigma=1):  # signature of the installed chaospy (4.3): the second parameter is called sigma
        return _CpDist('Laplace', (mu, sigma), None, None, None)

    def J(self, *ds):
        return tuple(ds)


class _SpsFamily:
    def __init__(self, S, name):
        self._pdf, self._cdf, self._ppf = S.func(name + '_pdf', 3), S.func(name + '_cdf', 3), S.func(name + '_ppf', 3)

    def pdf(self, x, loc=0, scale=1):
        return self._pdf([x, loc, scale])[0]

    def cdf(self, x, loc=0, scale=1):
        return self._cdf([x, loc, scale])[0]

    def ppf(self, x, loc=0, scale=1):
        return self._ppf([x, loc, scale])[0]


class _SpsFacade(types.ModuleType):
    """scipy.stats as seen by GridOperation in lifted runs: norm / laplace pdf, cdf, ppf are uninterpreted functions of (x, loc, scale) - only
    WHICH parameters reach them matters here."""

    def __init__(self, S):
        super().__init__('sps_facade')
        self.norm, self.laplace = _SpsFamily(S, 'norm'), _SpsFamily(S, 'laplace')


PREPARE_PATTERNS = {
    'uniform': lambda d: [('Uniform',)] * d,
    'uniform-str': lambda d: 'Uniform',
    'triangle-same-midpoint-info': lambda d: [('Triangle', 0.5)] * d,
    'triangle': lambda d: [('Triangle', 0.25 + 0.25 * k) for k in range(d)],
    'normal': lambda d: [('Normal', float(k), 1.0 / (k + 1)) for k in range(d)],
    'normal-same': lambda d: [('Normal', 0.5, 2.0)] * d,
    'normal-same-mu': lambda d: [('Normal', 1.0, 1.0 + k) for k in range(d)],
    'laplace': lambda d: [('Laplace', float(k), 1.0 + k) for k in range(d)],
    'mixed': lambda d: ([('Uniform',), ('Normal', 0.0, 1.0), ('Triangle', 0.5), ('Uniform',), ('Normal', 0.0, 2.0)] * d)[:d],
}


def _prepare(S, d, pattern):
    """The distribution used for dimension k is the one the user specified for dimension k, with the bounds a[k], b[k] of that dimension
    (UncertaintyQuantification.__init__ / _prepare_distributions), and the weighted grid of the uniform case is the unweighted one over the length."""
    from sparseSpACE import GridOperation as GO
    from sparseSpACE import Function as FM
    G = _G()
    distris = PREPARE_PATTERNS[pattern](d)
    bounded = pattern.startswith('uniform') or pattern.startswith('triangle') or pattern == 'mixed'
    a, b, pool = [], [], []
    for k in range(d):
        if bounded:
            # The library keys a dictionary with the bounds, which the engine hashes by normal form (job hash_mode): every bound is either the
            # very same term as an earlier bound (solver's choice) or a fresh value assumed different from all earlier ones, so equal keys are
            # syntactically equal and different keys provably different.  All coincidence patterns between the bounds of the dimensions
            # (same box, same lower bound only, a_k = b_j, ...) are enumerated by the choices.
            def pick(tag):
                j = S.choice('pick_%s%d' % (tag, k), len(pool) + 1)
                if j < len(pool):
                    return pool[j]
                v = S.real('%s%d' % (tag, k))
                S.assume(v >= -8)
                S.assume(v <= 8)
                for o in pool:
                    S.assume(v != o)
                pool.append(v)
                return v
            if k >= 2:
                # third and later dimensions: the box of an earlier dimension or two fresh bounds (keeps the number of patterns small)
                j = S.choice('box%d' % k, k + 1)
                if j < k:
                    a.append(a[j])
                    b.append(b[j])
                    continue
                S.assume(S.choice('pick_a%d' % k, len(pool) + 1) == len(pool))
                S.assume(S.choice('pick_b%d' % k, len(pool) + 2) == len(pool) + 1)
            ak = pick('a')
            bk = pick('b')
            S.assume(bk - ak >= 1)
            a.append(ak)
            b.append(bk)
        else:
            a.append(-float(k + 1))
            b.append(float(2 * k + 1))
    op = GO.UncertaintyQuantification(FM.ConstantValue(1.0), distris if isinstance(distris, str) else list(distris), a, b, dim=d)
    infos = [distris] * d if isinstance(distris, str) else distris
    infos = [(i,) if isinstance(i, str) else i for i in infos]
    S.prove(len(op.distributions) == d, 'prepare:one-distribution-per-dimension')
    x = S.real('x')
    q = S.real('q')
    S.assume(q > 0)
    S.assume(q < 1)
    for k in range(d):
        info = infos[k]
        dist = op.distributions[k]
        if info[0] in ('Uniform', 'Triangle'):
            S.assume(x >= -16)
            S.assume(x <= 16)
            t = a[k] + (x + 16) / 32 * (b[k] - a[k])  # a point of [a_k, b_k]
            if info[0] == 'Uniform':
                want = (t - a[k]) / (b[k] - a[k])
                S.prove(S.eq(dist.cdf(t), want, 1.0, 1e-12), 'prepare:dimension-k-uses-Uniform(a_k,b_k)')
                S.prove(S.eq(dist.ppf(q), a[k] + q * (b[k] - a[k]), 1.0, 1e-12), 'prepare:dimension-k-ppf-is-that-of-Uniform(a_k,b_k)')
            else:
                mid = info[1]
                if S.lifted:
                    S.assume(a[k] < mid - 0.125)
                    S.assume(b[k] > mid + 0.125)
                elif not (a[k] < mid - 0.125 and b[k] > mid + 0.125):
                    continue
                want = _tri_cdf(a[k], mid, b[k])(t)
                S.prove(S.eq(dist.cdf(t), want, 1.0, 1e-9), 'prepare:dimension-k-uses-Triangle(a_k,mid_k,b_k)')
        else:
            fam = 'norm' if info[0] == 'Normal' else 'laplace'
            import scipy.stats
            real = getattr(scipy.stats, fam)
            if S.lifted:
                want_c, want_p = S.func(fam + '_cdf', 3)([x, info[1], info[2]])[0], S.func(fam + '_ppf', 3)([q, info[1], info[2]])[0]
            else:
                want_c, want_p = real.cdf(x, loc=info[1], scale=info[2]), real.ppf(q, loc=info[1], scale=info[2])
            S.prove(S.eq(dist.cdf(x), want_c, 1.0, 1e-12), 'prepare:dimension-k-uses-the-parameters-given-for-dimension-k')
            S.prove(S.eq(dist.ppf(q), want_p, 1.0, 1e-9), 'prepare:dimension-k-ppf-uses-the-parameters-given-for-dimension-k')
    if pattern.startswith('uniform') and d == 2:
        # the statement itself: weighted trapezoidal weights of a uniform distribution = unweighted weights / interval length, in every dimension
        for dist in op.distributions:
            if S.lifted:
                dist.cached_moments = [_NoCache(), _NoCache()]
        grid = G.GlobalTrapezoidalGridWeighted(a, b, op, boundary=True)
        coords = [[a[k], a[k] + (b[k] - a[k]) / 4, a[k] + (b[k] - a[k]) / 2, b[k]] for k in range(d)]
        grid.set_grid([list(c) for c in coords], [[0, 2, 1, 0]] * d)
        for k in range(d):
            w = list(grid.weights[k])
            ref = list(G.GlobalTrapezoidalGrid.compute_weights(list(coords[k]), a[k], b[k], False))
            S.prove(sym_and(*[S.eq(w[i], ref[i] / (b[k] - a[k]), 1.0, 1e-12) for i in range(4)]), 'prepare:uniform-weights-are-trapezoidal-weights-over-length-in-every-dimension')


def prepare(S, d, pattern):
    from sparseSpACE import GridOperation as GO
    import chaospy, scipy.stats
    if S.lifted:
        # the closures of _prepare_distributions look `sps` up when they are called: the stand-ins stay in place for the whole run
        GO.cp, GO.sps = _CpFacade(S), _SpsFacade(S)
    try:
        return _prepare(S, d, pattern)
    finally:
        GO.cp, GO.sps = chaospy, scipy.stats




def _uniform_pdf_shims():
    """Uniform chaospy distribution members are compiled; in lifted mode the UQDistribution of a Uniform is given by its formulas."""
    return [('sparseSpACE.GridOperation', 'integrate', _IntegrateFacade())]


BOUNDS = {
    'quick': {'abstract distribution: symbolic grid n': [2, 5], 'abstract distribution: dyadic trees n': [3, 9], 'uniform: symbolic grid n': [2, 6],
              'moments': 'd=1 dimension-wise (lmin,lmax)=(1,2), 0..1 scripted refinements; d=2 initial grid'},
    'thorough': {'abstract distribution: symbolic grid n': [2, 5], 'abstract distribution: dyadic trees n': [3, 11], 'uniform: symbolic grid n': [2, 9],
                 'moments': 'd=1 dimension-wise (lmin,lmax)=(1,2), 0..2 scripted refinements; d=2 initial grid'},
}

META = {
    'functions': ['GlobalTrapezoidalGridWeighted.compute_weights/compute_1D_quad_weights/get_middle_weighted/get_mid_point', 'GlobalGrid.set_grid', 'UQDistribution.get_zeroth_moment/get_first_moment',
                  'UncertaintyQuantification.__init__/_prepare_distributions/calculate_expectation_and_variance/moments_to_expectation_variance/_get_combiintegral', 'FunctionPower', 'FunctionConcatenate',
                  'SpatiallyAdaptiveSingleDimensions2 (evaluation on the weighted grid)'],
    'bounds': BOUNDS,
    'assumptions': ['abstract distribution contract: per interval m0 >= 0; m0 > 0 => x_i*m0 < m1 < x_{i+1}*m0 (density: no atoms on grid points); m0 = 0 => m1 = 0; sum of m0 over [a,b] = 1',
                    'scipy.integrate.quad replaced by Boole\'s rule (exact for the polynomial integrands of the uniform distribution); its QUADPACK accuracy (epsrel=1e-2) for other densities is outside',
                    'midpoint: cdf strictly increasing, ppf its exact inverse (or arbitrary for the containment goal)',
                    'moments: uniform distribution on [0,1]^d through chaospy for construction only; values through the formulas above'],
    'outside': ['chaospy internals, PCE', 'triangle/normal closed forms and the accuracy of their numerically integrated first moments (only via the abstract contract)',
                'GlobalLagrangeGridWeighted / high-order weighted grids', 'infinite supports'],
}

MANIFEST_ENTRY = {
    'text': 'The weighted trapezoidal weights are computed by the real code from an abstract distribution whose interval moments are solver variables constrained only by "has a density"; '
            'non-negativity and normalisation are decided for all such distributions and all grids within the bound; moment transformation laws are polynomial identities over an uninterpreted model.',
    'note': 'Trusted: z3, LIFT proxies/numpy facade, the quad stand-in for the uniform case.',
}


def jobs(tier):
    q = tier == 'quick'
    b = BOUNDS[tier]
    extra = _uniform_pdf_shims()
    js = []
    lo, hi = b['abstract distribution: symbolic grid n']
    for n in range(lo, hi + 1):
        for boundary in (True, False):
            if not boundary and n < 4:
                continue
            js.append(Job('weights[sym,n=%d,%s]' % (n, 'b' if boundary else 'nb'), weights, {'n': n, 'boundary': boundary, 'coords': 'sym'}, timeout_ms=30000))
            js.append(Job('weights-direct[n=%d,%s]' % (n, 'b' if boundary else 'nb'), weights_direct, {'n': n, 'boundary': boundary}, timeout_ms=30000))
    lo, hi = b['abstract distribution: dyadic trees n']
    for n in range(lo, hi + 1):
        for boundary in (True, False):
            if not boundary and n < 4:
                continue
            js.append(Job('weights[tree,n=%d,%s]' % (n, 'b' if boundary else 'nb'), weights, {'n': n, 'boundary': boundary, 'coords': 'tree'},
                          validate=(13 if q else 5), budget_s=(600 if q else 3000)))
            if 4 <= n <= (6 if q else 9):
                js.append(Job('weights[tree,n=%d,%s,partial-mass]' % (n, 'b' if boundary else 'nb'), weights, {'n': n, 'boundary': boundary, 'coords': 'tree', 'partial': True},
                              validate=(13 if q else 5), budget_s=(600 if q else 3000)))
    lo, hi = b['uniform: symbolic grid n']
    for n in range(lo, hi + 1):
        for boundary in (True, False):
            if not boundary and n < 4:
                continue
            # without boundary the renormalisation divides by the inner weight sum (a quotient of solver variables): dyadic trees on [2,6] instead
            js.append(Job('uniform[n=%d,%s]' % (n, 'b' if boundary else 'nb'), uniform, {'n': n, 'boundary': boundary, 'coords': 'sym' if boundary else 'tree'},
                          extra_shims=extra, validate=(5 if q else 2)))
    for n in ((4, 5) if q else (4, 5, 6, 7)):
        for boundary in (True, False):
            js.append(Job('uniform-cache[n=%d,%s]' % (n, 'b' if boundary else 'nb'), uniform_cache, {'n': n, 'boundary': boundary}, extra_shims=extra, validate=(5 if q else 2)))
    js.append(Job('midpoint[exact-inverse]', midpoint, {'exact_inverse': True}))
    js.append(Job('midpoint[arbitrary-ppf]', midpoint, {'exact_inverse': False}))
    for d in ((2, 3) if q else (2, 3, 4)):
        for pat in PREPARE_PATTERNS:
            js.append(Job('prepare[d=%d,%s]' % (d, pat), prepare, {'d': d, 'pattern': pat}, extra_shims=extra, validate=1, timeout_ms=30000, hash_mode='normal_form'))
    for d in (1, 2):
        for rounds in ((0, 1) if q else (0, 1, 2)):
            for const in (False, True):
                if d == 2 and rounds > 0:
                    continue  # 21+ grid points: the variance queries (quadratic forms in all nodal values) exceed the solver cap
                js.append(Job('moments[d=%d,rounds=%d%s]' % (d, rounds, ',const' if const else ''), moments, {'d': d, 'rounds': rounds, 'constant_model': const},
                              extra_shims=extra, validate=(3 if q else 1), budget_s=(600 if q else 3000), timeout_ms=60000))
    return js
