"""C03 — dimension-wise refinement always yields a valid nested combination.

S (state): per dimension a refinement tree chosen by the solver among all binary trees that refine the initial complete tree
  of level lmax0 and have the given number of points (dyadic coordinates); lmax, coarsening levels and the adaptive scheme come
  from the real update_coarsening_values / raise_lmax / getCombiScheme.
H (history): the real refine() k times with solver-chosen sets of selected intervals (P3 benefits), rebalancing on/off.
Goals in every state, for every component grid of the scheme (real get_point_coord_for_each_dim / get_subtraction_value /
get_max_level / modify_according_to_levelvec): 1-D stripes sorted, contain the domain ends, depend only on (d, l_d), monotone in
l_d; coefficient sum 1 at every sparse-grid point; the real __call__ (interpolate_points) reproduces an uninterpreted F at every
sparse-grid point.
"""
import itertools

import numpy as np

from lift import core, lib
from lift.core import sym_and, is_sym
from lift.run import Job
from harness import dw

PROPERTY = 'C03'


_CACHE = {}


def _trees_refining_initial(npts, lmax0, onesided=False):
    """Binary trees with npts points that contain the complete tree of depth lmax0 (as dyadic coordinate sets).
    onesided: all additional points lie inside ONE interval of the initial tree (strongly local refinement)."""
    key = (npts, lmax0, onesided)
    if key in _CACHE:
        return _CACHE[key]
    out = []
    base = sorted(i / 2 ** lmax0 for i in range(2 ** lmax0 + 1))
    for t in lib.all_trees(npts):
        xs = lib.dyadic_coords(t, 0.0, 1.0)
        if set(base) <= set(xs):
            if onesided:
                extra = [x for x in xs if x not in base]
                if extra and not any(all(base[i] < x < base[i + 1] for x in extra) for i in range(len(base) - 1)):
                    continue
            out.append((t, xs))
    _CACHE[key] = out
    return out


def state(S, npts, lmin, lmax0, version, boundary, box=(0.0, 1.0), out_len=1, onesided=False):
    d = len(npts)
    SD, GO, G, EC, RO, RC = dw.mods()
    a = [box[0]] * d
    b = [box[1]] * d
    f = lib.make_function(S, 'F', d, out_len)
    xs, lv = [], []
    for k in range(d):
        cands = _trees_refining_initial(npts[k], lmax0, onesided)
        c = S.choice('tree%d' % k, len(cands))
        t, x01 = cands[c]
        lv.append(list(t))
        xs.append([box[0] + (box[1] - box[0]) * x for x in x01])
    sa, op, grid = dw.make_instance(f, a, b, boundary=boundary, version=version)
    dw.prepare_without_evaluation(sa, lmin, lmax0, EC.ErrorCalculatorSingleDimVolumeGuided())
    dw.install_state(sa, d, xs, lv, lmax0)
    S.observe('lmax', [int(x) for x in sa.lmax])
    S.observe('scheme', sorted([[int(x) for x in cg.levelvector] + [int(cg.coefficient)] for cg in sa.scheme]))
    dw.grid_goals(S, sa, d, f, 'state', boundary, out_len=out_len)


def history(S, d, lmin, lmax0, version, boundary, rebalancing, k, max_sel, box=(0.0, 1.0)):
    SD, GO, G, EC, RO, RC = dw.mods()
    a = [box[0]] * d
    b = [box[1]] * d
    f = lib.make_function(S, 'F', d, 1)
    sa, op, grid = dw.make_instance(f, a, b, boundary=boundary, version=version, rebalancing=rebalancing)
    dw.prepare_without_evaluation(sa, lmin, lmax0, EC.ErrorCalculatorSingleDimVolumeGuided())
    sa.refinements = 0
    sa.counter = 1
    dw.grid_goals(S, sa, d, f, 'hist0', boundary)
    for step in range(k):
        dw.scripted_refine(S, sa, d, step, max_sel)
        dw.structure_goals(S, sa, d, 'hist-structure')
        dw.grid_goals(S, sa, d, f, 'hist', boundary, check_interp=(step == k - 1))
    S.observe('points', [len(dw.container_state(sa, kk)[1]) for kk in range(d)])
    S.observe('lmax', [int(x) for x in sa.lmax])


def history2(S, d, lmin, lmax0, version, boundary, rebalancing, k, max_sel):
    """Two refinement histories on ONE strategy object (performSpatiallyAdaptiv called again on the same instance starts from the initial
    refinement): the second history is checked like the first, with the interpolant evaluated after every step of both."""
    SD, GO, G, EC, RO, RC = dw.mods()
    a = [0.0] * d
    b = [1.0] * d
    f = lib.make_function(S, 'F', d, 1)
    sa, op, grid = dw.make_instance(f, a, b, boundary=boundary, version=version, rebalancing=rebalancing)
    for run in range(2):
        dw.prepare_without_evaluation(sa, lmin, lmax0, EC.ErrorCalculatorSingleDimVolumeGuided())
        sa.refinements = 0
        sa.counter = 1
        for step in range(k):
            dw.scripted_refine(S, sa, d, 10 * run + step, max_sel)
            if run == 1:
                dw.structure_goals(S, sa, d, 'hist2-structure')
            dw.grid_goals(S, sa, d, f, 'hist2-run%d' % (run + 1), boundary, check_interp=True)
    S.observe('points', [len(dw.container_state(sa, kk)[1]) for kk in range(d)])


BOUNDS = {
    'quick': {'state: (points per dim, lmin, lmax0)': [((6, 5), 1, 2), ((7, 5), 1, 2), ((6, 6), 1, 2), ((9, 9), 1, 3), ((10, 9), 1, 3), ((10, 9), 2, 3)],
              'one-sided states': '8x8 points (all extra points inside one initial interval per dimension), versions 6,7', 'versions': [6, 2, 3, 7, 8], 'boundary': [True, False], 'history': 'd=2, (lmin,lmax0)=(1,2), k<=2 steps, <=2 selected intervals per step (or all), rebalancing on/off'},
    'thorough': {'state: (points per dim, lmin, lmax0)': [((6, 5), 1, 2), ((7, 5), 1, 2), ((6, 6), 1, 2), ((7, 6), 1, 2), ((7, 7), 1, 2), ((8, 5), 1, 2), ((9, 9), 1, 3),
                                                           ((10, 9), 1, 3), ((10, 10), 1, 3), ((11, 9), 1, 3), ((10, 9), 2, 3), ((10, 10), 2, 3), ((6, 5, 5), 1, 2), ((6, 6, 5), 1, 2)],
                 'versions': [6, 2, 3, 7, 8], 'boundary': [True, False],
                 'history': 'd=2: (1,2) k<=3, (1,3)/(2,3) k<=2; d=3: (1,2) k<=2; <=2 selected intervals per step (or all), rebalancing on/off'},
}

META = {
    'functions': ['SpatiallyAdaptiveSingleDimensions2.get_point_coord_for_each_dim', 'get_subtraction_value', 'get_max_level', 'modify_according_to_levelvec',
                  'is_child', 'get_node_info', 'get_points_all_dim', 'get_points_component_grid', 'interpolate_points', 'update_coarsening_values', 'raise_lmax',
                  'refinement_postprocessing', 'rebalance', 'SpatiallyAdaptivBase.refine', 'StandardCombi.__call__', 'GridOperation.interpolate_points_component_grid',
                  'Integration.get_component_grid_values', 'Interpolation.interpolate_points', 'CombiScheme.getCombiScheme/update_adaptive_combi',
                  'RefinementContainer.*', 'RefinementObjectSingleDimension.refine'],
    'bounds': BOUNDS,
    'assumptions': ['states: refinement trees are binary trees refining the initial complete level-lmax0 tree, dyadic coordinates on [0,1] or [-3,6]',
                    'history: benefits are scripted (1 for the chosen intervals, 0 otherwise) - the selection rule itself is C06',
                    'scipy interpn replaced by the reference multilinear interpolant (validated against scipy each run)'],
    'outside': ['coarsening versions 1, 4, 5', 'Chebyshev points, forced balanced trees', 'd >= 4, more points per dimension than stated', 'weighted midpoints'],
}

MANIFEST_ENTRY = {
    'text': 'Every refinement state up to the stated size (tree shapes chosen exhaustively by the solver) and every bounded refinement history is pushed through the real grid-construction, '
            'coarsening and interpolation code with an uninterpreted function: nestedness, coefficient sums and reproduction of F at all sparse-grid points are decided for all functions at once.',
    'note': 'Trusted: z3, LIFT proxies/numpy facade, interpn reference stub. Geometry concrete (dyadic); function values symbolic.',
}


def jobs(tier):
    b = BOUNDS[tier]
    js = []
    n = 0
    for (npts, lmin, lmax0) in b['state: (points per dim, lmin, lmax0)']:
        for version in b['versions']:
            for boundary in b['boundary']:
                box = (0.0, 1.0) if n % 2 == 0 else (-3.0, 6.0)
                out_len = 2 if n % 5 == 0 else 1
                n += 1
                js.append(Job('state[pts=%s,l=%d-%d,v=%d,%s]' % ('x'.join(map(str, npts)), lmin, lmax0, version, 'b' if boundary else 'nb'), state,
                              {'npts': list(npts), 'lmin': lmin, 'lmax0': lmax0, 'version': version, 'boundary': boundary, 'box': list(box), 'out_len': out_len},
                              validate=(7 if tier == 'quick' else 3)))
    # strongly one-sided states (all extra points inside one initial interval, in every dimension): deep local refinement next to
    # shallow sub-trees, which bounded histories reach only after many steps
    for (npts, lmin, lmax0) in ([((8, 8), 1, 2)] if tier == 'quick' else [((8, 8), 1, 2), ((9, 8), 1, 2), ((11, 11), 1, 3), ((7, 7, 6), 1, 2)]):
        for version in ((6, 7) if tier == 'quick' else (6, 7, 8, 2, 3)):
            for boundary in ((True,) if tier == 'quick' else (True, False)):
                js.append(Job('state-onesided[pts=%s,l=%d-%d,v=%d,%s]' % ('x'.join(map(str, npts)), lmin, lmax0, version, 'b' if boundary else 'nb'), state,
                              {'npts': list(npts), 'lmin': lmin, 'lmax0': lmax0, 'version': version, 'boundary': boundary, 'box': [0.0, 1.0], 'out_len': 1, 'onesided': True},
                              validate=(29 if tier == 'quick' else 11), budget_s=(600 if tier == 'quick' else 3000)))
    hist = [(2, 1, 2, 2)] if tier == 'quick' else [(2, 1, 2, 3), (2, 1, 3, 2), (2, 2, 3, 2), (3, 1, 2, 2)]
    for (d, lmin, lmax0, k) in hist:
        for version in b['versions']:
            for boundary in b['boundary']:
                for reb in (True, False):
                    if tier == 'quick' and version not in (6, 3) and not (boundary and reb):
                        continue
                    js.append(Job('hist[d=%d,l=%d-%d,v=%d,%s,%s,k=%d]' % (d, lmin, lmax0, version, 'b' if boundary else 'nb', 'rebal' if reb else 'norebal', k), history,
                                  {'d': d, 'lmin': lmin, 'lmax0': lmax0, 'version': version, 'boundary': boundary, 'rebalancing': reb, 'k': k,
                                   'max_sel': 2 if (d == 2 and lmax0 == 2) else 1},
                                  validate=(23 if tier == 'quick' else 7), budget_s=(600 if tier == 'quick' else 3000)))
    for (d, lmin, lmax0, k, version, boundary, reb) in ([(2, 1, 2, 1, 6, True, False), (2, 1, 2, 1, 3, True, True)] if tier == 'quick' else
                                                       [(2, 1, 2, 1, v, bd, rb) for v in (6, 3, 7) for bd in (True, False) for rb in (True, False)] + [(2, 1, 2, 2, 6, True, False)]):
        js.append(Job('hist2[d=%d,l=%d-%d,v=%d,%s,%s,k=%d]' % (d, lmin, lmax0, version, 'b' if boundary else 'nb', 'rebal' if reb else 'norebal', k), history2,
                      {'d': d, 'lmin': lmin, 'lmax0': lmax0, 'version': version, 'boundary': boundary, 'rebalancing': reb, 'k': k, 'max_sel': 1},
                      validate=(7 if tier == 'quick' else 3), budget_s=(600 if tier == 'quick' else 3000)))
    return js
