"""Extend-split / cell strategy harness pieces (filled in with C07)."""


def c04_jobs(tier):
    return []
