"""Extend-split (and cell) strategy harness pieces, shared by C07 and C04."""
import itertools
from fractions import Fraction

import numpy as np

from lift import core, lib
from lift.core import sym_and, sym_or, sym_not, is_sym
from lift.run import Job


def mods():
    from sparseSpACE import spatiallyAdaptiveExtendSplit as ES
    from sparseSpACE import spatiallyAdaptiveCell as CELL
    from sparseSpACE import GridOperation, Grid, ErrorCalculator, RefinementObject, RefinementContainer
    return ES, CELL, GridOperation, Grid, ErrorCalculator, RefinementObject, RefinementContainer


def _leaf_key(sa):
    import hashlib
    parts = sorted('%s:%s:%d' % (','.join('%g' % float(x) for x in o.start), ','.join('%g' % float(x) for x in o.end), int(o.coarseningValue))
                   for o in sa.refinement.get_objects())
    return hashlib.md5('|'.join(parts).encode()).hexdigest()[:10]


def _area_key(o):
    return '%s_%s' % ('x'.join('%g' % float(x) for x in o.start), 'x'.join('%g' % float(x) for x in o.end))


class ESScript:
    """P3 stand-ins installed on an extend-split instance (plain object, so that dill can save/restore the instance with them)."""

    def __init__(self, sa, pool, keyed):
        self.sa, self.pool, self.keyed = sa, pool, keyed
        self.round, self.k, self.calls = -1, 0, 0
        self.decided = {}  # keyed mode: the error flag of an area is decided once (at its first evaluation) and is a function of the area

    def calc_error(self, objectID):
        sa = self.sa
        S = lib.current_source()
        r = len(sa.error_array)
        if r != self.round:
            self.round = r
            self.k = 0
        if self.keyed:
            # keyed: the flag is a function of the area (two runs that create the same area decide alike, and evaluating an area again -
            # after a continuation - reports the same flag); only the first `pool` newly decided areas of a round get a solver choice
            ak = _area_key(sa.refinement.get_object(objectID))
            if ak in self.decided:
                v = self.decided[ak]
            else:
                v = float(S.choice('err_%s' % ak, 2)) if self.k < self.pool else 0.0
                self.k += 1
                self.decided[ak] = v
            sa.refinement.get_object(objectID).set_error(v)
            return
        if self.k < self.pool:
            v = float(S.choice('err%d_%d' % (r, self.k), 2))
        else:
            v = 0.0
        self.k += 1
        sa.refinement.get_object(objectID).set_error(v)

    def benefits(self, area):
        sa = self.sa
        S = lib.current_source()
        n = self.calls
        self.calls += 1
        ext = S.flag(('extend_%s_%s' % (_leaf_key(sa), _area_key(area))) if self.keyed else 'extend%d' % n)
        area.parent_info.benefit_extend = 0.0 if ext else 1.0
        area.parent_info.benefit_split = 1.0 if ext else 0.0
        area.parent_info.extend_error_correction = 0.0

    def twin_error(self, dd, area, norm):
        S = lib.current_source()
        v = S.fresh_real('twin')
        S.assume(v >= 0)
        return v


def make_es(S, f, d, box, boundary, version, nrbe, auto, single_dim, pool, keyed=False, grid_kind='trapezoid', real_benefits=False):
    """Extend-split instance on the real classes with P3 stand-ins for the error / benefit estimates:
      calc_error(objectID)            -> error 1 or 0 chosen by the solver for the first `pool` new areas of a round, 0 otherwise
      compute_benefits_for_operations -> extend/split benefits chosen by the solver (automatic_extend_split)
      get_twin_error                  -> arbitrary non-negative value per call (split_single_dim)
    Everything that decides geometry, coarsening, scheme and values is the real code."""
    ES, CELL, GO, G, EC, RO, RC = mods()
    a = np.array([box[0]] * d, dtype=float)
    b = np.array([box[1]] * d, dtype=float)
    grid = G.TrapezoidalGrid(a=a, b=b, boundary=boundary) if grid_kind == 'trapezoid' else G.LagrangeGrid(a=a, b=b, boundary=boundary, p=2)
    op = GO.Integration(f=f, grid=grid, dim=d)
    sa = ES.SpatiallyAdaptiveExtendScheme(a, b, number_of_refinements_before_extend=nrbe, version=version, automatic_extend_split=auto,
                                          split_single_dim=single_dim, operation=op)
    script = ESScript(sa, pool, keyed)
    if not real_benefits:  # with the real benefit computation the real error computation (it prepares sum_siblings etc.) stays in place as well
        sa.calc_error = script.calc_error
    if not real_benefits:
        sa.compute_benefits_for_operations = script.benefits
    if single_dim:
        sa.get_twin_error = script.twin_error
    return sa, op, grid, a, b


def leaves(sa):
    return list(sa.refinement.get_objects())


def tiling_goals(S, sa, d, a, b, tag):
    objs = leaves(sa)
    boxes = [([float(x) for x in o.start], [float(x) for x in o.end]) for o in objs]
    S.prove(all(all(s[k] < e[k] for k in range(d)) for s, e in boxes), tag + ':areas-are-nondegenerate-boxes')
    S.prove(all(all(a[k] <= s[k] and e[k] <= b[k] for k in range(d)) for s, e in boxes), tag + ':areas-inside-domain')
    vol = sum(np.prod([e[k] - s[k] for k in range(d)]) for s, e in boxes)
    S.prove(abs(vol - np.prod([b[k] - a[k] for k in range(d)])) <= 1e-12 * abs(vol), tag + ':area-volumes-sum-to-domain-volume')
    disjoint = True
    for i in range(len(boxes)):
        for j in range(i + 1, len(boxes)):
            overlap = all(min(boxes[i][1][k], boxes[j][1][k]) > max(boxes[i][0][k], boxes[j][0][k]) for k in range(d))
            disjoint = disjoint and not overlap
    S.prove(disjoint, tag + ':areas-have-pairwise-disjoint-interiors')
    S.prove(all(o.coarseningValue >= 0 for o in objs), tag + ':coarsening-values-never-negative')
    # point assignment: vertices, face centres and cell centres of all leaves
    pts = set()
    for s, e in boxes:
        for combo in itertools.product(*[(s[k], (s[k] + e[k]) / 2, e[k]) for k in range(d)]):
            pts.add(tuple(combo))
    pts = sorted(pts)
    assign = sa.get_points_assignement_to_areas(pts)
    seen = {}
    ok_contains = True
    leaf_ids = set(id(o) for o in objs)
    ok_leaf = True
    for area, contained in assign:
        ok_leaf = ok_leaf and id(area) in leaf_ids
        for p in contained:
            seen[tuple(p)] = seen.get(tuple(p), 0) + 1
            ok_contains = ok_contains and all(area.start[k] <= p[k] <= area.end[k] for k in range(d))
    S.prove(ok_leaf, tag + ':points-are-assigned-to-leaf-areas')
    S.prove(ok_contains, tag + ':assigned-area-contains-the-point')
    S.prove(all(seen.get(p, 0) == 1 for p in pts), tag + ':every-point-assigned-to-exactly-one-leaf')


def local_combination_goals(S, sa, d, f, tag, out_len=1, interp=True):
    """Per area: coefficients of the component grids that are actually computed sum to 1 at every grid point of the area;
    the local interpolant reproduces F there."""
    ok_sum = True
    per_area = []
    for area in leaves(sa):
        count = {}
        for cg in sa.scheme:
            lv, do_compute = sa.coarsen_grid(cg.levelvector, area)
            if not do_compute:
                continue
            sa.grid.setCurrentArea(area.start, area.end, lv)
            for p in sa.grid.getPoints():
                p = tuple(float(x) for x in p)
                count[p] = count.get(p, 0) + cg.coefficient
        ok_sum = ok_sum and all(v == 1 for v in count.values()) and len(count) > 0
        per_area.append((area, sorted(count)))
    S.prove(ok_sum, tag + ':computed-grids-have-coefficient-sum-one-at-every-area-grid-point')
    if not interp:
        return
    # local interpolant of each area (the body of the library's interpolate_points, restricted to one area) at the area's own grid points
    ok = True
    for area, pts in per_area:
        if not pts:
            continue
        total = None
        for cg in sa.scheme:
            lv, do_compute = sa.coarsen_grid(cg.levelvector, area)
            if not do_compute:
                continue
            sa.grid.setCurrentArea(start=area.start, end=area.end, levelvec=lv)
            vals = sa.operation.interpolate_points_component_grid(cg, sa.grid.coordinate_array, pts)
            total = vals * cg.coefficient if total is None else total + vals * cg.coefficient
        for p, v in zip(pts, total):
            want = f.F(list(p))
            ok = sym_and(ok, *[v[j] == want[j] for j in range(out_len)])
    S.prove(ok, tag + ':local-interpolant-reproduces-F-at-area-grid-points')
    # through the public __call__ at points strictly inside an area (unambiguous assignment)
    inner = sorted(set(p for area, pts in per_area for p in pts
                       if all(float(area.start[k]) < p[k] < float(area.end[k]) for k in range(d))))
    if inner:
        vals = sa(inner)
        ok = True
        for p, v in zip(inner, vals):
            want = f.F(list(p))
            ok = sym_and(ok, *[v[j] == want[j] for j in range(out_len)])
        S.prove(ok, tag + ':public-call-reproduces-F-at-interior-area-grid-points')


def run_es(S, d, lmin, lmax, box, boundary, version, nrbe, auto, single_dim, pool, cap, f, after_round=None, reevaluate=False, keyed=False, grid_kind='trapezoid', real_benefits=False):
    sa, op, grid, a, b = make_es(S, f, d, box, boundary, version, nrbe, auto, single_dim, pool, keyed=keyed, grid_kind=grid_kind, real_benefits=real_benefits)
    orig_refine = sa.refine

    def observed_refine():
        r = orig_refine()
        if after_round is not None:
            after_round(sa, a, b)
        return r

    sa.refine = observed_refine
    est = None
    if real_benefits:
        ES, CELL, GO, G, EC, RO, RC = mods()
        est = EC.ErrorCalculatorExtendSplit()
    res = sa.performSpatiallyAdaptiv(lmin, lmax, est, tol=-1.0, max_evaluations=cap, print_output=False, reevaluate_at_end=reevaluate)
    return sa, op, a, b, res


# ---------------------------------------------------------------------------------------------------
def multilinear(S, d):
    from sparseSpACE.Function import Function
    coeffs = {e: S.real('c' + ''.join(map(str, e))) for e in itertools.product((0, 1), repeat=d)}

    class ML(Function):
        def eval(self, x):
            tot = 0
            for e, c in coeffs.items():
                term = c
                for k in range(d):
                    if e[k]:
                        term = term * x[k]
                tot = tot + term
            return tot

        def eval_vectorized(self, coordinates):
            coordinates = np.asarray(coordinates)
            out = np.empty(coordinates.shape[:-1] + (1,), dtype=object if S.lifted else float)
            for idx in np.ndindex(coordinates.shape[:-1]):
                out[idx] = self.eval(coordinates[idx])
            return out

    def exact(a, b):
        tot = 0
        for e, c in coeffs.items():
            term = c
            for k in range(d):
                term = term * ((b[k] * b[k] - a[k] * a[k]) / 2 if e[k] else (b[k] - a[k]))
            tot = tot + term
        return tot

    return ML(), exact


def es_exact(S, d, lmin, lmax, box, version, nrbe, auto, single_dim, pool, cap):
    f, exact = multilinear(S, d)
    sa, op, a, b, res = run_es(S, d, lmin, lmax, box, True, version, nrbe, auto, single_dim, pool, cap, f)
    S.observe('points', [int(x) for x in res[6]])
    S.observe('integral', list(np.ravel(res[3])))
    S.prove(S.eq(np.ravel(res[3])[0], exact([float(x) for x in a], [float(x) for x in b])), 'extendsplit:multilinear-function-integrated-exactly')


def cell_exact(S, d, level, box, cap, pool):
    """Cell strategy in its supported lmin=lmax configuration: multilinear functions stay exact along solver-chosen histories."""
    ES, CELL, GO, G, EC, RO, RC = mods()
    f, exact = multilinear(S, d)
    a = np.array([box[0]] * d, dtype=float)
    b = np.array([box[1]] * d, dtype=float)
    grid = G.TrapezoidalGrid(a=a, b=b, boundary=True)
    op = GO.Integration(f=f, grid=grid, dim=d)
    sa = CELL.SpatiallyAdaptiveCellScheme(a, b, operation=op)
    state = {'round': -1, 'k': 0}

    class Scripted(EC.ErrorCalculator):
        def calc_error(self_, refine_object, norm, volume_weights=None):
            r = len(sa.error_array)
            if r != state['round']:
                state['round'] = r
                state['k'] = 0
            v = 0.0
            if state['k'] < pool:
                v = float(S.choice('cerr%d_%d' % (r, state['k']), 2))
            state['k'] += 1
            return v

    res = sa.performSpatiallyAdaptiv(level, level, Scripted(), tol=-1.0, max_evaluations=cap, print_output=False)
    S.observe('points', [int(x) for x in res[6]])
    S.prove(S.eq(np.ravel(res[3])[0], exact([float(x) for x in a], [float(x) for x in b])), 'cell:multilinear-function-integrated-exactly')


def c04_jobs(tier):
    q = tier == 'quick'
    js = []
    cfgs = []
    for version in (0, 1, 2):
        for nrbe in (1, 2):
            cfgs.append((2, 1, 2, (0.0, 1.0) if version != 1 else (-3.0, 6.0), version, nrbe, False, False))
    cfgs.append((2, 1, 2, (0.0, 1.0), 0, 1, True, False))
    cfgs.append((2, 1, 2, (0.0, 1.0), 0, 1, False, True))
    if not q:
        cfgs.append((2, 1, 3, (0.0, 1.0), 0, 1, False, False))
        cfgs.append((2, 2, 3, (0.0, 1.0), 1, 1, False, False))
        cfgs.append((3, 1, 2, (0.0, 1.0), 0, 1, False, False))
        cfgs.append((2, 1, 2, (-3.0, 6.0), 1, 1, True, False))
    for (d, lmin, lmax, box, version, nrbe, auto, sd) in cfgs:
        cap = {(2, 2): 60 if q else 110, (2, 3): 130, (3, 2): 160}[(d, lmax)]
        if auto:
            cap = 36 if q else 60
        if sd:
            cap = 26 if q else 40
        pool = 1 if (q and (auto or sd)) else 2
        js.append(Job('es-exact[d=%d,l=%d-%d,v=%d,nrbe=%d%s%s,box=%s]' % (d, lmin, lmax, version, nrbe, ',auto' if auto else '', ',single' if sd else '', box), es_exact,
                      {'d': d, 'lmin': lmin, 'lmax': lmax, 'box': list(box), 'version': version, 'nrbe': nrbe, 'auto': auto, 'single_dim': sd, 'pool': pool, 'cap': cap},
                      validate=(7 if q else 3), budget_s=(600 if q else 3000)))
    for (d, level, cap) in ([(2, 1, 14), (2, 2, 30)] if q else [(2, 1, 24), (2, 2, 40), (3, 1, 40)]):
        js.append(Job('cell-exact[d=%d,l=%d,cap=%d]' % (d, level, cap), cell_exact, {'d': d, 'level': level, 'box': [0.0, 1.0], 'cap': cap, 'pool': 2},
                      validate=(5 if q else 2), budget_s=(600 if q else 3000)))
    return js
