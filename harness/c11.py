"""C11 — Romberg extrapolation grids give consistent, exact-to-order weights.

Real ExtrapolationGrid (slices, containers, factories, support sequences), BalancedExtrapolationGrid, GridBinaryTree and the
Grid.py wrappers GlobalRombergGrid / GlobalBalancedRombergGrid on every dyadic refinement tree with n points (tree chosen by the
solver, exhaustively) over a SYMBOLIC interval [a, a+h], h > 0 (coordinates a + t*h, dyadic t):
  * weights sum to the interval length and integrate linear functions exactly on every tree,
    for every slice grouping x slice version {ROMBERG_DEFAULT, TRAPEZOID} x container version {ROMBERG_DEFAULT, SIMPSON_ROMBERG}
  * complete tree of depth m: the default Romberg variants integrate x^k exactly for k <= 2m+1; balanced grid: k <= 2m-1
  * forcing a full binary tree only adds points, keeps all given ones, every inner point ends with 0 or 2 children.
"""
import itertools
from fractions import Fraction

import numpy as np

from lift import core, lib
from lift.core import sym_and, is_sym
from lift.run import Job

PROPERTY = 'C11'


def _X():
    from sparseSpACE import Extrapolation
    return Extrapolation


def _interval(S, sym):
    if sym:
        a = S.real('a')
        h = S.real('h')
        S.assume(h > 0)
        if S.lifted:
            # grid points a + t*h are used as dictionary keys by the library: hashed by normal form; the runner proves that all
            # keys used on a path are pairwise different (they are, since h > 0)
            S.ctx.hash_mode = 'normal_form'
        return a, h
    return 0.0, 1.0


def _is_complete(lv):
    m = max(lv)
    return len(lv) == 2 ** m + 1 and m >= 1


def _moment(b, a, k):
    return (b ** (k + 1) - a ** (k + 1)) / (k + 1)


def _children_ok(xs, lv):
    """Every inner point has zero or two children (children = points one level deeper adjacent in the tree)."""
    n = len(xs)
    for i in range(1, n - 1):
        l = lv[i]
        # left subtree: points between the nearest lower-or-equal level point to the left and i
        j = i - 1
        left_child = False
        while j >= 0 and lv[j] > l:
            if lv[j] == l + 1:
                left_child = True
            j -= 1
        k = i + 1
        right_child = False
        while k < n and lv[k] > l:
            if lv[k] == l + 1:
                right_child = True
            k += 1
        if left_child != right_child:
            return False
    return True


def romberg(S, n, grouping, slice_version, container_version, force_balanced, sym_interval, wrapper=False):
    X = _X()
    a, h = _interval(S, sym_interval)
    b = a + h
    lv = lib.tree_levels(S, 'tree', n)
    xs = lib.dyadic_coords(lv, a, b)
    kw = dict(slice_grouping=getattr(X.SliceGrouping, grouping), slice_version=getattr(X.SliceVersion, slice_version),
              container_version=getattr(X.SliceContainerVersion, container_version))
    if wrapper:
        from sparseSpACE import Grid as G
        g = G.GlobalRombergGrid([a], [b], boundary=True, do_cache=False, **kw)
        g.set_grid([list(xs)], [list(lv)])
        w = list(g.weights[0])
        gx, glv = list(xs), list(lv)
    else:
        grid = X.ExtrapolationGrid(force_balanced_refinement_tree=force_balanced, **kw)
        grid.set_grid(list(xs), list(lv))
        w = list(grid.get_weights())
        gx, glv = list(grid.get_grid()), list(grid.get_grid_levels())
    S.observe('npoints', len(gx))
    S.prove(len(w) == len(gx), 'romberg:one-weight-per-grid-point')
    if force_balanced:
        keys = [_k(x) for x in gx]
        S.prove(all(_k(x) in keys for x in xs), 'balance:all-given-points-kept')
        S.prove(len(gx) >= len(xs) and sym_and(*[gx[i] < gx[i + 1] for i in range(len(gx) - 1)]), 'balance:only-adds-points-sorted')
        S.prove(lib.valid_tree([int(l) for l in glv]) and _children_ok(gx, [int(l) for l in glv]), 'balance:every-inner-point-has-zero-or-two-children')
        S.prove(all(int(glv[keys.index(_k(x))]) == int(l) for x, l in zip(xs, lv)), 'balance:levels-of-given-points-unchanged')
    S.prove(S.eq(sum(w), h), 'romberg:weights-sum-to-interval-length')
    S.prove(S.eq(sum(wi * x for wi, x in zip(w, gx)), _moment(b, a, 1)), 'romberg:linear-functions-exact')
    glv_i = [int(l) for l in glv]
    if _is_complete(glv_i) and slice_version == 'ROMBERG_DEFAULT' and container_version == 'ROMBERG_DEFAULT':
        m = max(glv_i)
        for k in range(2, 2 * m + 2):
            S.prove(S.eq(sum(wi * x ** k for wi, x in zip(w, gx)), _moment(b, a, k)), 'romberg:complete-tree-exact-to-degree-2m+1')


def wrapper_cache(S, n):
    """The global wrappers keep a weight cache (default do_cache=True) on one object that serves every dimension and every later
    set_grid: dimensions with the same level sequence but different edge lengths, and a later grid on another interval."""
    from sparseSpACE import Grid as G
    a, h = _interval(S, True)
    lv = lib.tree_levels(S, 'tree', n)
    lv2 = lib.tree_levels(S, 'tree2', n)
    for cls, tag in ((G.GlobalRombergGrid, 'romberg'),):
        edges = [(a, a + h), (a, a + 2 * h), (a + h, a + 2 * h)]
        g = cls([e[0] for e in edges], [e[1] for e in edges], boundary=True)
        for rnd, (trees, scale) in enumerate((([lv, lv, lv2], 1), ([lv2, lv, lv], 3))):
            ed = [(lo, lo + (hi - lo) * scale) for lo, hi in edges]
            coords = [list(lib.dyadic_coords(t, lo, hi)) for t, (lo, hi) in zip(trees, ed)]
            g.set_grid(coords, [list(t) for t in trees])
            for d, (lo, hi) in enumerate(ed):
                w = list(g.weights[d])
                S.prove(len(w) == n, 'wrapper-cache:one-weight-per-point')
                S.prove(S.eq(sum(w), hi - lo), 'wrapper-cache:%s-weights-sum-to-the-edge-length-in-every-dimension-and-round' % tag)
                S.prove(S.eq(sum(wi * x for wi, x in zip(w, coords[d])), _moment(hi, lo, 1)), 'wrapper-cache:%s-linear-functions-exact-in-every-dimension-and-round' % tag)


def wrapper_settings(S, n):
    """Several GlobalRombergGrid objects with different extrapolation settings live in one process and see the same 1-D grid one after the other
    (a trapezoid reference next to a Romberg grid, two operations, ...).  Whatever an earlier object cached, each object delivers the weights of
    its OWN settings: equal to those of an identically configured object that does not use the cache (do_cache=False)."""
    from sparseSpACE import Grid as G
    X = _X()
    a, h = _interval(S, True)
    lv = list(lib.tree_levels(S, 'tree', n))
    coords = list(lib.dyadic_coords(lv, a, a + h))
    groupings = [X.SliceGrouping.UNIT, X.SliceGrouping.GROUPED, X.SliceGrouping.GROUPED_OPTIMIZED]
    versions = [X.SliceVersion.ROMBERG_DEFAULT, X.SliceVersion.TRAPEZOID]
    cfg = []
    for rnd in range(2):
        cfg.append((groupings[S.choice('grouping%d' % rnd, len(groupings))], versions[S.choice('version%d' % rnd, len(versions))]))
    for rnd, (grp, ver) in enumerate(cfg):
        got = G.GlobalRombergGrid([a], [a + h], boundary=True, slice_grouping=grp, slice_version=ver)
        got.set_grid([coords], [lv])
        ref = G.GlobalRombergGrid([a], [a + h], boundary=True, do_cache=False, slice_grouping=grp, slice_version=ver)
        ref.set_grid([coords], [lv])
        w, wr = list(got.weights[0]), list(ref.weights[0])
        S.prove(len(w) == n and len(wr) == n, 'wrapper-settings:one-weight-per-point')
        S.prove(sym_and(*[S.eq(x, y) for x, y in zip(w, wr)]), 'wrapper-settings:object-%d-delivers-the-weights-of-its-own-settings' % (rnd + 1))
        S.prove(S.eq(sum(w), h), 'wrapper-settings:weights-sum-to-the-interval-length')


def _is_complete_balanced(lv):
    """Balanced extrapolation needs a tree in which every inner node has zero or two children."""
    lv = [int(l) for l in lv]
    xs = lib.dyadic_coords(lv, 0.0, 1.0)
    return _children_ok(xs, lv)


def _k(x):
    if is_sym(x):
        return ('s', frozenset(core.SymNum.coerce(x).terms.items()))
    return ('c', float(x))


def balanced(S, n, sym_interval, wrapper=False):
    X = _X()
    a, h = _interval(S, sym_interval)
    b = a + h
    trees = [t for t in lib.all_trees(n) if _children_ok(list(range(n)), t)]
    if not trees:
        S.assume(False)
    lv = list(trees[S.choice('btree', len(trees))])
    xs = lib.dyadic_coords(lv, a, b)
    if wrapper:
        from sparseSpACE import Grid as G
        g = G.GlobalBalancedRombergGrid([a], [b], boundary=False)
        g.set_grid([list(xs)], [list(lv)])
        full = list(g.compute_1D_quad_weights(list(xs), a, b, 0, grid_levels_1D=list(lv)))
        S.prove(len(g.weights[0]) == n - 2, 'balanced:wrapper-strips-boundary-weights')
        w = full
    else:
        grid = X.BalancedExtrapolationGrid()
        grid.set_grid(list(xs), list(lv))
        w = list(grid.get_weights())
    S.prove(len(w) == n, 'balanced:one-weight-per-grid-point')
    # the balanced grid extrapolates with the float constant -1/(4**k - 1): identities hold up to that rounding (coefficient-wise, 1e-12)
    S.prove(S.close(sum(w), h), 'balanced:weights-sum-to-interval-length')
    S.prove(S.close(sum(wi * x for wi, x in zip(w, xs)), _moment(b, a, 1)), 'balanced:linear-functions-exact')
    if _is_complete(lv):
        m = max(lv)
        for k in range(2, 2 * m):
            S.prove(S.close(sum(wi * x ** k for wi, x in zip(w, xs)), _moment(b, a, k)), 'balanced:complete-tree-exact-to-degree-2m-1')


def force_tree(S, n):
    X = _X()
    lv = lib.tree_levels(S, 'tree', n)
    xs = lib.dyadic_coords(lv, 0.0, 1.0)
    tree = X.GridBinaryTree()
    tree.init_tree(list(xs), list(lv))
    S.prove([float(x) for x in tree.get_grid()] == [float(x) for x in xs] and [int(l) for l in tree.get_grid_levels()] == lv, 'tree:init-roundtrip')
    tree.force_full_tree_invariant()
    gx = [float(x) for x in tree.get_grid()]
    glv = [int(l) for l in tree.get_grid_levels()]
    S.observe('added', len(gx) - n)
    S.prove(all(x in gx for x in xs), 'tree:all-given-points-kept')
    S.prove(gx == sorted(gx) and len(set(gx)) == len(gx), 'tree:sorted-without-duplicates')
    S.prove(all(glv[gx.index(x)] == l for x, l in zip(xs, lv)), 'tree:levels-of-given-points-unchanged')
    S.prove(lib.valid_tree(glv) and _children_ok(gx, glv), 'tree:every-inner-point-has-zero-or-two-children')
    S.prove(gx == [float(x) for x in lib.dyadic_coords(glv, 0.0, 1.0)], 'tree:added-points-are-dyadic-midpoints')


BOUNDS = {
    'quick': {'points per tree': [2, 7], 'complete trees': 'depth <= 3 (9 points)', 'interval': 'symbolic [a, a+h]',
              'variants': 'all 3 groupings x {ROMBERG_DEFAULT, TRAPEZOID} x {ROMBERG_DEFAULT, SIMPSON_ROMBERG}, forced balancing on/off'},
    'thorough': {'points per tree': [2, 9], 'complete trees': 'depth <= 4 (17 points)', 'interval': 'symbolic [a, a+h]',
                 'variants': 'all 3 groupings x {ROMBERG_DEFAULT, TRAPEZOID} x {ROMBERG_DEFAULT, SIMPSON_ROMBERG}, forced balancing on/off'},
}

META = {
    'functions': ['ExtrapolationGrid.set_grid/__init_grid_slices/compute_support_sequence/initialize_containers_with_slices/adjust_containers/update_weights/get_weights',
                  'RombergGridSlice.*', 'TrapezoidalGridSlice.*', 'RombergGridSliceContainer.*', 'SimpsonRombergGridSliceContainer.*', 'ExtrapolationCoefficients*', 'RombergWeightFactory/RombergWeights*',
                  'ExtrapolationGridSliceFactory/ContainerFactory', 'GridBinaryTree.init_tree/force_full_tree_invariant/get_grid/get_grid_levels', 'BalancedExtrapolationGrid.set_grid/get_weights',
                  'GlobalRombergGrid.compute_1D_quad_weights', 'GlobalBalancedRombergGrid.compute_1D_quad_weights'],
    'bounds': BOUNDS,
    'assumptions': ['dyadic refinement trees (step widths (b-a)/2^k, which the code itself asserts); interval symbolic with h > 0',
                    'weights do not depend on the integrand: with a symbolic interval every weight is a rational multiple of h, decided by the polynomial normal form and the solver'],
    'outside': ['Lagrange-interpolating containers and constant-subtraction slices (out of scope in the property)', 'more points than stated'],
}

MANIFEST_ENTRY = {
    'text': 'The real sliced/balanced Romberg weight code runs on every dyadic tree up to the bound with the interval as solver variables; weight sums and moment conditions are polynomial '
            'identities in (a, h) discharged for all intervals at once; the solver enumerates the trees exhaustively.',
    'note': 'Trusted: z3, LIFT proxies (polynomial normal form with exact rational coefficients), numpy facade.',
}


def jobs(tier):
    q = tier == 'quick'
    lo, hi = BOUNDS[tier]['points per tree']
    js = []
    variants = list(itertools.product(('UNIT', 'GROUPED', 'GROUPED_OPTIMIZED'), ('ROMBERG_DEFAULT', 'TRAPEZOID'), ('ROMBERG_DEFAULT', 'SIMPSON_ROMBERG')))
    for n in list(range(lo, hi + 1)) + ([9] if q else [17]):
        for (g, sv, cv) in variants:
            for fb in (False, True):
                if n in (9, 17) and n > hi:
                    # only the complete tree of this size
                    js.append(Job('romberg-complete[n=%d,%s,%s,%s,%s]' % (n, g, sv, cv, 'forced' if fb else 'plain'), romberg_complete,
                                  {'n': n, 'grouping': g, 'slice_version': sv, 'container_version': cv, 'force_balanced': fb}, budget_s=(600 if q else 3000)))
                    continue
                if fb and n < 3:
                    continue  # forcing a full tree needs at least one inner point (GridBinaryTree asserts a root node)
                js.append(Job('romberg[n=%d,%s,%s,%s,%s]' % (n, g, sv, cv, 'forced' if fb else 'plain'), romberg,
                              {'n': n, 'grouping': g, 'slice_version': sv, 'container_version': cv, 'force_balanced': fb, 'sym_interval': True},
                              validate=(7 if q else 3), budget_s=(600 if q else 3000)))
    for n in range(3, hi + 1):
        js.append(Job('romberg-wrapper[n=%d]' % n, romberg, {'n': n, 'grouping': 'UNIT', 'slice_version': 'ROMBERG_DEFAULT', 'container_version': 'ROMBERG_DEFAULT',
                                                             'force_balanced': False, 'sym_interval': True, 'wrapper': True}, validate=(7 if q else 3)))
    for n in (3, 4, 5) if q else (3, 4, 5, 6, 7):
        js.append(Job('wrapper-cache[n=%d]' % n, wrapper_cache, {'n': n}, validate=(7 if q else 3), budget_s=(600 if q else 3000)))
        js.append(Job('wrapper-settings[n=%d]' % n, wrapper_settings, {'n': n}, validate=(7 if q else 3), budget_s=(600 if q else 3000)))
    for n in (3, 5, 7, 9) if q else (3, 5, 7, 9, 11, 13, 17):
        js.append(Job('balanced[n=%d]' % n, balanced, {'n': n, 'sym_interval': True}, validate=(5 if q else 2), budget_s=(600 if q else 3000)))
        js.append(Job('balanced-wrapper[n=%d]' % n, balanced, {'n': n, 'sym_interval': True, 'wrapper': True}, validate=(5 if q else 2), budget_s=(600 if q else 3000)))
    for n in range(3, (8 if q else 10)):
        js.append(Job('force-tree[n=%d]' % n, force_tree, {'n': n}, validate=(5 if q else 2)))
    return js


def romberg_complete(S, n, grouping, slice_version, container_version, force_balanced):
    """Only the complete tree with n = 2^m + 1 points."""
    X = _X()
    a, h = _interval(S, True)
    b = a + h
    m = (n - 1).bit_length() - 1
    lv = [0] + [m - ((i & -i).bit_length() - 1) for i in range(1, n - 1)] + [0]
    xs = lib.dyadic_coords(lv, a, b)
    grid = X.ExtrapolationGrid(slice_grouping=getattr(X.SliceGrouping, grouping), slice_version=getattr(X.SliceVersion, slice_version),
                               container_version=getattr(X.SliceContainerVersion, container_version), force_balanced_refinement_tree=force_balanced)
    grid.set_grid(list(xs), list(lv))
    w = list(grid.get_weights())
    gx = list(grid.get_grid())
    S.prove(len(gx) == n, 'romberg:complete-tree-unchanged-by-balancing')
    S.prove(S.eq(sum(w), h), 'romberg:weights-sum-to-interval-length')
    S.prove(S.eq(sum(wi * x for wi, x in zip(w, gx)), _moment(b, a, 1)), 'romberg:linear-functions-exact')
    if slice_version == 'ROMBERG_DEFAULT' and container_version == 'ROMBERG_DEFAULT':
        for k in range(2, 2 * m + 2):
            S.prove(S.eq(sum(wi * x ** k for wi, x in zip(w, gx)), _moment(b, a, k)), 'romberg:complete-tree-exact-to-degree-2m+1')
