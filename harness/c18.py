"""C18 — DataSet transformations preserve the labelled samples.

Real DEMachineLearning.DataSet with symbolic sample coordinates (n <= 3 samples, dim <= 2, incl. empty and single-sample sets),
solver-chosen labels in {-1, 0, 1} and solver-chosen operation sequences:
  scale_range (override or not), scale_factor, shift_value, revert_scaling, shuffle (P3 permutation), move_boundaries_to_front,
  split_labels, split_pieces, split_without_labels, remove_samples (solver-chosen indices, also out of range), concatenate.
Goals: range ends hit by min/max after scale_range; revert_scaling restores the samples as they were before the first scaling since
the last overriding rescale; the multiset of (sample, label) pairs is preserved by the structural operations, labels stay attached,
scaling attributes are carried along; concatenation of differently scaled sets is refused; out-of-range removal indices are rejected
without modifying the data.
Stubs: MinMaxScaler (reference formula, validated against sklearn each run), shuffle (arbitrary permutation).
"""
import itertools

import numpy as np

from lift import core, lib, mlstubs
from lift.core import sym_and, sym_or, sym_not, is_sym
from lift.run import Job

PROPERTY = 'C18'


def _ml():
    from sparseSpACE import DEMachineLearning
    return DEMachineLearning


def _key(x):
    x = core.SymNum.coerce(x)
    return frozenset(x.terms.items())


def _row_key(row, label):
    return (tuple(_key(v) for v in row), int(label))


def _pairs(ds):
    data, labels = ds.get_data()
    if ds.is_empty():
        return []
    return [(tuple(data[i]), labels[i]) for i in range(len(labels))]


def _multiset(pairs, S):
    if S.lifted:
        ks = [_row_key(r, l) for r, l in pairs]
    else:
        ks = [(tuple(round(float(v), 9) for v in r), int(l)) for r, l in pairs]
    return sorted(ks, key=repr)


def _make(S, n, dim, tag=''):
    ML = _ml()
    samples = [[S.real('%sx%d_%d' % (tag, i, k)) for k in range(dim)] for i in range(n)]
    pats = {0: [()], 1: [(-1,), (0,)], 2: [(0, 1), (0, -1), (1, 1)], 3: [(0, 1, -1), (0, 0, 1), (1, 1, 1), (-1, -1, 0)]}[n]
    labels = list(pats[S.choice('%slabels' % tag, len(pats))])
    arr = np.array(samples, dtype=object if S.lifted else float).reshape((n, dim)) if n else np.array([])
    ds = ML.DataSet((arr, np.array(labels, dtype=np.int64)) if n else (np.array([]), np.array([])))
    return ds, samples, labels


def _attrs(ds):
    return (ds.is_scaled(), ds.get_scaling_range(), ds.get_scaling_factor(), ds.get_original_min(), ds.get_original_max())


def _same_attrs(S, a, b):
    """Scaling attributes carried along (compared structurally)."""
    def flat(v):
        if v is None:
            return [None]
        if isinstance(v, (tuple, list, np.ndarray)):
            out = []
            for e in v:
                out.extend(flat(e))
            return out
        return [v]
    fa, fb = flat(list(a)), flat(list(b))
    if len(fa) != len(fb):
        return False
    ok = True
    for x, y in zip(fa, fb):
        if x is None or y is None or isinstance(x, (bool, np.bool_)) or isinstance(y, (bool, np.bool_)):
            ok = sym_and(ok, (x is None and y is None) or (x is not None and y is not None and bool(x) == bool(y)))
        else:
            ok = sym_and(ok, S.eq(x, y))
    return ok


def scaling(S, n, dim, nops, prescale='none'):
    """Scaling operations and revert (optionally on a set that has already been scaled once)."""
    ML = _ml()
    ds, samples, labels = _make(S, n, dim)
    baseline = [list(r) for r in samples]  # samples before the first scaling since the last overriding rescale
    scaled_once = False
    if prescale == 'range':
        ds.scale_range((-1.0, 2.0))
        scaled_once = True
    elif prescale == 'factor':
        fac0 = S.real('fac_pre')
        S.assume(fac0 != 0)
        ds.scale_factor(fac0)
        scaled_once = True
    for step in range(nops):
        op = S.choice('op%d' % step, 5)
        if op == 0:  # scale_range
            override = S.flag('ovr%d' % step)
            lo, hi = (0.0, 1.0) if step % 2 == 0 else (-2.0, 3.0)
            before = [list(r) for r, _ in _pairs(ds)]
            if override or not scaled_once:
                baseline = before
            ds.scale_range((lo, hi), override_scaling=override)
            scaled_once = True
            after = [r for r, _ in _pairs(ds)]
            for k in range(dim):
                col_b = [r[k] for r in before]
                col_a = [r[k] for r in after]
                # sklearn contract: a dimension with zero range is mapped to the lower end
                nonconst = sym_or(*[col_b[i] != col_b[j] for i in range(n) for j in range(i + 1, n)]) if n > 1 else False
                mn, mx = col_a[0], col_a[0]
                for v in col_a[1:]:
                    mn = core.sym_min(mn, v) if S.lifted else min(mn, v)
                    mx = core.sym_max(mx, v) if S.lifted else max(mx, v)
                S.prove(S.eq(mn, lo), 'scale_range:minimum-mapped-to-lower-end')
                S.prove(core.sym_implies(nonconst, S.eq(mx, hi)) if S.lifted else ((not nonconst) or S.eq(mx, hi)), 'scale_range:maximum-mapped-to-upper-end')
        elif op == 1:  # scale_factor
            fac = S.real('fac%d' % step)
            S.assume(fac != 0)
            override = S.flag('ovr%d' % step)
            before = [list(r) for r, _ in _pairs(ds)]
            if override or not scaled_once:
                baseline = before
            ds.scale_factor(fac, override_scaling=override)
            scaled_once = True
            after = [r for r, _ in _pairs(ds)]
            S.prove(sym_and(*[S.eq(after[i][k], before[i][k] * fac) for i in range(n) for k in range(dim)]), 'scale_factor:every-sample-multiplied')
        elif op == 2:  # shift_value
            sh = S.real('shift%d' % step)
            override = S.flag('ovr%d' % step)
            before = [list(r) for r, _ in _pairs(ds)]
            if override or not scaled_once:
                baseline = before
            ds.shift_value(sh, override_scaling=override)
            scaled_once = True
            after = [r for r, _ in _pairs(ds)]
            S.prove(sym_and(*[S.eq(after[i][k], before[i][k] + sh) for i in range(n) for k in range(dim)]), 'shift_value:every-sample-shifted')
        elif op == 3:  # revert
            if not scaled_once:
                continue
            ds.revert_scaling()
            after = [r for r, _ in _pairs(ds)]
            S.prove(sym_and(*[S.eq(after[i][k], baseline[i][k]) for i in range(n) for k in range(dim)]),
                    'revert_scaling:restores-samples-before-first-scaling-since-last-override')
            S.prove(not ds.is_scaled() and ds.get_scaling_range() is None and ds.get_scaling_factor() is None and ds.get_original_min() is None,
                    'revert_scaling:scaling-attributes-cleared')
            scaled_once = False
            baseline = [list(r) for r in after]
        else:  # copy keeps everything
            cp = ds.copy()
            S.prove(_multiset(_pairs(cp), S) == _multiset(_pairs(ds), S), 'copy:same-samples')
            S.prove(_same_attrs(S, _attrs(cp), _attrs(ds)), 'copy:scaling-attributes-carried')
        S.prove([int(l) for _, l in _pairs(ds)] == [int(l) for l in labels], 'scaling:labels-unchanged-and-attached')
    S.observe('final', [list(r) for r, _ in _pairs(ds)])


def structural(S, n, dim, nops, prescale, first_op):
    """Structure-changing operations preserve the multiset of labelled samples and carry the scaling attributes."""
    ML = _ml()
    ds, samples, labels = _make(S, n, dim)
    if prescale == 'range' and n > 0:
        ds.scale_range((0.0, 1.0))
    elif prescale == 'factor' and n > 0:
        ds.scale_factor(2.0)
    for step in range(nops):
        op = S.choice('sop%d' % step, 6) if step > 0 else first_op
        before = _multiset(_pairs(ds), S)
        attrs = _attrs(ds)
        nn = ds.get_length()
        if op == 0:
            if nn == 0:
                continue
            ds.shuffle()
            S.prove(_multiset(_pairs(ds), S) == before, 'shuffle:multiset-preserved')
            S.prove(_same_attrs(S, _attrs(ds), attrs), 'shuffle:scaling-attributes-carried')
        elif op == 1:
            if nn == 0:
                continue
            ds.move_boundaries_to_front()
            S.prove(_multiset(_pairs(ds), S) == before, 'move_boundaries_to_front:multiset-preserved')
        elif op == 2:
            if nn == 0:
                continue
            parts = ds.split_labels()
            allp = [p for part in parts for p in _pairs(part)]
            S.prove(_multiset(allp, S) == before, 'split_labels:multiset-preserved')
            S.prove(all(len(set(int(l) for _, l in _pairs(part))) <= 1 for part in parts), 'split_labels:one-label-per-part')
            S.prove(sym_and(*[_same_attrs(S, _attrs(part), attrs) for part in parts]), 'split_labels:scaling-attributes-carried')
        elif op == 3:
            pct = [0.0, 0.34, 0.75][S.choice('pct%d' % step, 3)]
            if nn == 0:
                continue
            s0, s1 = ds.split_pieces(pct)
            S.prove(_multiset(_pairs(s0) + _pairs(s1), S) == before, 'split_pieces:multiset-preserved')
            S.prove(_pairs_equal(S, _pairs(s0) + _pairs(s1), _pairs(ds)), 'split_pieces:order-and-labels-kept')
            S.prove(sym_and(_same_attrs(S, _attrs(s0), attrs), _same_attrs(S, _attrs(s1), attrs)), 'split_pieces:scaling-attributes-carried')
        elif op == 4:
            if nn == 0:
                continue
            less, full = ds.split_without_labels()
            S.prove(_multiset(_pairs(less) + _pairs(full), S) == before, 'split_without_labels:multiset-preserved')
            S.prove(all(int(l) == -1 for _, l in _pairs(less)) and all(int(l) >= 0 for _, l in _pairs(full)), 'split_without_labels:separation-correct')
            S.prove(sym_and(_same_attrs(S, _attrs(less), attrs), _same_attrs(S, _attrs(full), attrs)), 'split_without_labels:scaling-attributes-carried')
        else:
            # remove_samples with solver-chosen indices (possibly out of range, possibly repeated)
            k = S.choice('nidx%d' % step, 3)
            idx = [S.choice('idx%d_%d' % (step, j), nn + 2) - 1 for j in range(k)]
            in_range = all(0 <= i < nn for i in idx)
            if in_range and len(set(idx)) == len(idx):
                removed = ds.remove_samples(list(idx))
                S.prove(_multiset(_pairs(removed) + _pairs(ds), S) == before, 'remove_samples:removed-plus-rest-is-the-original-multiset')
                S.prove(removed.get_length() == len(idx) and ds.get_length() == nn - len(idx), 'remove_samples:sizes')
                if len(idx) > 0:
                    S.prove(_same_attrs(S, _attrs(removed), attrs), 'remove_samples:scaling-attributes-carried')
                # concatenating back restores the multiset and is accepted (same scaling)
                if len(idx) > 0 and ds.get_length() > 0:
                    back = ds.concatenate(removed)
                    S.prove(_multiset(_pairs(back), S) == before, 'concatenate:multiset-is-the-union')
                    S.prove(_same_attrs(S, _attrs(back), attrs), 'concatenate:scaling-attributes-carried')
            elif not in_range:
                snapshot = _pairs(ds)
                rejected = False
                try:
                    ds.remove_samples(list(idx))
                except (ValueError, IndexError):
                    rejected = True
                S.prove(rejected, 'remove_samples:out-of-range-indices-rejected')
                S.prove(_pairs_equal(S, _pairs(ds), snapshot), 'remove_samples:data-unchanged-after-rejection')
    S.observe('len', ds.get_length())


def derived(S, n, dim, how, prescale):
    """A scaled set hands out derived sets (split pieces, label classes, removed samples).  Operations on a derived set must leave the parent
    alone, and reverting the scaling of either restores the samples as they were before the scaling."""
    ML = _ml()
    ds, samples, labels = _make(S, n, dim)
    orig = {}  # original row by identity of position in the parent
    if prescale == 'range':
        ds.scale_range((0.0, 1.0))
    else:
        fac0 = S.real('fac_pre')
        S.assume(fac0 != 0)
        ds.scale_factor(fac0)
        sh0 = S.real('shift_pre')
        ds.shift_value(sh0)
    scaled_rows = [list(r) for r, _ in _pairs(ds)]
    attrs = _attrs(ds)
    attrs = tuple(np.array(a, dtype=object).copy() if isinstance(a, np.ndarray) else a for a in attrs)
    if how == 'pieces':
        parts = list(ds.split_pieces(0.5))
        cut = round(n * 0.5)  # as DataSet.split_pieces computes it
        index_sets = [list(range(0, cut)), list(range(cut, n))]
    elif how == 'labels':
        parts = list(ds.split_labels())
        index_sets = None
    else:  # remove one solver-chosen sample
        i = S.choice('rm', n)
        parts = [ds.remove_samples([i])]
        index_sets = [[i]]
    t = S.choice('which', len(parts))
    part = parts[t]
    if part.is_empty():
        return
    before_part = [list(r) for r, _ in _pairs(part)]
    # which original rows does the part hold?  (identified through the scaled rows, position by position for pieces / removal)
    if index_sets is not None:
        want_part = [samples[j] for j in index_sets[t]]
    else:
        lab = int(_pairs(part)[0][1])
        want_part = [samples[j] for j in range(n) if labels[j] == lab]
    part.revert_scaling()
    after_part = [list(r) for r, _ in _pairs(part)]
    S.prove(_same_attrs(S, _attrs(ds), attrs), 'derived:reverting-a-derived-set-leaves-the-parent-scaling-attributes-unchanged')
    S.prove(len(after_part) == len(want_part) and sym_and(*[S.eq(after_part[i][k], want_part[i][k]) for i in range(len(want_part)) for k in range(dim)]),
            'derived:revert-on-a-derived-set-restores-its-original-samples')
    rest = [list(r) for r, _ in _pairs(ds)]
    keep = [j for j in range(n) if not (how == 'remove' and j == index_sets[0][0])]
    S.prove(len(rest) == len(keep) and sym_and(*[S.eq(rest[i][k], scaled_rows[j][k]) for i, j in enumerate(keep) for k in range(dim)]),
            'derived:reverting-a-derived-set-leaves-the-parent-samples-unchanged')
    if not ds.is_empty():
        ds.revert_scaling()
        back = [list(r) for r, _ in _pairs(ds)]
        S.prove(sym_and(*[S.eq(back[i][k], samples[j][k]) for i, j in enumerate(keep) for k in range(dim)]),
                'derived:parent-revert-afterwards-restores-the-original-samples')


def _pairs_equal(S, a, b):
    if len(a) != len(b):
        return False
    ok = True
    for (r1, l1), (r2, l2) in zip(a, b):
        ok = sym_and(ok, int(l1) == int(l2), *[S.eq(x, y) for x, y in zip(r1, r2)])
    return ok


def concat_refused(S, dim, kind):
    """Concatenation of data sets with different scalings is refused; with equal scalings it is the union."""
    ML = _ml()
    a, sa_, la = _make(S, 2, dim, 'a')
    b, sb_, lb = _make(S, 2, dim, 'b')
    if kind == 'scaled-vs-unscaled':
        a.scale_range((0.0, 1.0))
    elif kind == 'different-range':
        a.scale_range((0.0, 1.0))
        b.scale_range((0.0, 2.0))
    elif kind == 'different-factor':
        a.scale_factor(2.0)
        b.scale_factor(3.0)
    elif kind == 'same-factor':
        a.scale_factor(2.0)
        b.scale_factor(2.0)
    before = _multiset(_pairs(a) + _pairs(b), S)
    refused = False
    res = None
    try:
        res = a.concatenate(b)
    except ValueError:
        refused = True
    if kind in ('unscaled',):
        S.prove(not refused and _multiset(_pairs(res), S) == before, 'concatenate:unscaled-union')
    elif kind == 'same-factor':
        # equal factor but data-dependent ranges: the library compares ranges too; either outcome must keep the operands intact
        S.prove(refused or _multiset(_pairs(res), S) == before, 'concatenate:accepted-result-is-the-union')
    else:
        S.prove(refused, 'concatenate:different-scalings-refused')
    S.prove(_multiset(_pairs(a) + _pairs(b), S) == before, 'concatenate:operands-unchanged')


BOUNDS = {
    'quick': {'samples': 'n in {0,1,2,3} x dim in {1,2} (symbolic coordinates, labels in {-1,0,1})', 'scaling sequences': 'length 2 for n<=2,dim=1, else 1', 'structural sequences': 'length 2 for n<=2,dim=1 unscaled, else 1', 'labels': 'solver-chosen among fixed patterns over {-1,0,1}'},
    'thorough': {'samples': 'n in {0,1,2,3} x dim in {1,2,3}', 'scaling sequences': 'length 3 for n<=2,dim=1, else 2', 'structural sequences': 'length 2 for n<=2, else 1', 'labels': 'solver-chosen among fixed patterns over {-1,0,1}'},
}

META = {
    'functions': ['DataSet.__init__/_initialize/_update_internal/copy', 'scale_range', 'scale_factor', 'shift_value', 'revert_scaling', 'shuffle', 'move_boundaries_to_front',
                  'split_labels', 'split_pieces', 'split_without_labels', 'remove_samples', 'concatenate', 'list_concatenate', 'same_scaling', 'get_min_data/get_max_data/get_length'],
    'bounds': BOUNDS,
    'assumptions': ['MinMaxScaler replaced by its documented formula (validated against sklearn at every run); shuffle replaced by an arbitrary solver-chosen permutation',
                    'scale factors are non-zero (a zero factor cannot be reverted); a dimension with zero range is mapped to the lower end by scale_range (sklearn contract)',
                    'rejection of out-of-range removal indices may be signalled by ValueError or IndexError'],
    'outside': ['CSV input, plotting', 'remove_labels (random)', 'split_one_vs_others', 'n > 3 samples'],
}

MANIFEST_ENTRY = {
    'text': 'The real DataSet methods run on symbolic samples along solver-chosen operation sequences; value goals (range ends, revert) are arithmetic validity queries, structural goals compare '
            'the symbolic rows as multisets; derived sets (split pieces, label classes, removed samples) are scaled back independently of their parent.',
    'note': 'Trusted: z3, LIFT proxies/numpy facade, reference MinMaxScaler/shuffle stubs (cross-checked against sklearn).',
}


def jobs(tier):
    q = tier == 'quick'
    mlstubs.validate()
    extra = mlstubs.ml_shims()
    js = []
    dims = (1, 2) if q else (1, 2, 3)
    for dim in dims:
        for n in (1, 2, 3):
            nops = (2 if (n <= 2 and dim == 1) else 1) if q else (3 if (n <= 2 and dim == 1) else 2)
            js.append(Job('scaling[n=%d,dim=%d,ops=%d]' % (n, dim, nops), scaling, {'n': n, 'dim': dim, 'nops': nops}, extra_shims=extra,
                          validate=(7 if q else 3), budget_s=(600 if q else 3000), timeout_ms=30000))
            if n <= 2 and (dim == 1 or not q):
                for prescale in ('range', 'factor'):
                    js.append(Job('scaling[n=%d,dim=%d,ops=%d,pre=%s]' % (n, dim, 2, prescale), scaling, {'n': n, 'dim': dim, 'nops': 2, 'prescale': prescale},
                                  extra_shims=extra, validate=(7 if q else 3), budget_s=(600 if q else 3000), timeout_ms=30000))
        for n in (0, 1, 2, 3):
            for prescale in ('none', 'range', 'factor'):
                if n == 0 and prescale != 'none':
                    continue
                nops = (2 if (n <= 2 and dim == 1 and prescale == 'none') else 1) if q else (2 if n <= 2 else 1)
                for first_op in range(6):
                    if n == 0 and first_op != 5:
                        continue
                    js.append(Job('structural[n=%d,dim=%d,ops=%d,%s,first=%d]' % (n, dim, nops, prescale, first_op), structural,
                                  {'n': n, 'dim': dim, 'nops': nops, 'prescale': prescale, 'first_op': first_op},
                                  extra_shims=extra, validate=(9 if q else 4), budget_s=(600 if q else 3000)))
        for n in ((2, 3) if (q and dim == 1) else ((2,) if q else (2, 3))):
            for how in ('pieces', 'labels', 'remove'):
                for prescale in ('range', 'factor+shift'):
                    js.append(Job('derived[n=%d,dim=%d,%s,pre=%s]' % (n, dim, how, prescale), derived, {'n': n, 'dim': dim, 'how': how, 'prescale': prescale},
                                  extra_shims=extra, validate=(3 if q else 1), budget_s=(600 if q else 3000), timeout_ms=30000))
        for kind in ('unscaled', 'scaled-vs-unscaled', 'different-range', 'different-factor', 'same-factor'):
            js.append(Job('concat[dim=%d,%s]' % (dim, kind), concat_refused, {'dim': dim, 'kind': kind}, extra_shims=extra, validate=(3 if q else 1)))
    return js
