"""Driving the real adaptive loops (performSpatiallyAdaptiv / continue_adaptive_refinement) symbolically."""
import itertools

import numpy as np

from lift import core, lib
from lift.core import sym_and, is_sym
from harness import dw


def _state_key(sa, d):
    parts = []
    for k in range(d):
        objs = sa.refinement.get_refinement_container_for_dim(k).get_objects()
        parts.append('-'.join('%g' % float(o.end) for o in objs))
    import hashlib
    return hashlib.md5('|'.join(parts).encode()).hexdigest()[:10]


class ScriptedRoundErrors:
    """P3 error estimator for the real driver loop of the dimension-wise strategy.  While fewer than `rounds` evaluations have
    happened the solver picks the set of selected intervals (error 1, all others 0) - the choice variable is keyed by the current
    refinement structure, so two runs that reach the same structure take the same decision; afterwards every error is 0, so the
    surplus error is 0 and a tolerance >= 0 stops the run.  is_global = True makes the strategy skip its own surplus computation
    (calc_global_error is a no-op).  pool limits the candidates to the first `pool` intervals (bounds the number of histories)."""

    def __init__(self, sa, d, rounds, max_sel=1, pool=None):
        self.sa, self.d, self.rounds, self.max_sel, self.pool = sa, d, rounds, max_sel, pool
        self.is_global = True
        self.round = -1
        self.k = 0
        self.sel = set()
        self.chosen = []

    def calc_global_error(self, data, grid_scheme):
        return None

    def calc_error(self, refine_object, norm, volume_weights=None):
        r = len(self.sa.error_array)
        if r != self.round:
            self.round = r
            self.k = 0
            n = sum(self.sa.refinement.get_refinement_container_for_dim(k).size() for k in range(self.d))
            if self.rounds is None or r < self.rounds:
                m = n if self.pool is None else min(n, self.pool)
                subs = dw.subsets_upto(m, self.max_sel)
                c = lib.current_source().choice('sel_' + _state_key(self.sa, self.d), len(subs))
                self.sel = set(subs[c])
            else:
                self.sel = set()
            self.chosen.append(sorted(self.sel))
        v = 1.0 if self.k in self.sel else 0.0
        self.k += 1
        return v


def grid_trapezoid_sum(sa, cg, f, d, boundary, out_len):
    """Harness-side reference: trapezoidal rule on the tensor grid of the real 1-D stripes of component grid cg."""
    coords, levels, _ = sa.get_point_coord_for_each_dim(cg.levelvector)
    axes = []
    for k in range(d):
        c = [float(x) for x in coords[k]]
        row = []
        for i, x in enumerate(c):
            w = 0.0
            if i > 0:
                w += (c[i] - c[i - 1]) / 2
            if i < len(c) - 1:
                w += (c[i + 1] - c[i]) / 2
            if not boundary and i in (0, len(c) - 1):
                continue
            row.append((x, w))
        axes.append(row)
    tot = [0] * out_len
    for combo in itertools.product(*axes):
        w = 1.0
        for c in combo:
            w = w * c[1]
        fv = f.F([c[0] for c in combo])
        for j in range(out_len):
            tot[j] = tot[j] + w * fv[j]
    return tot
