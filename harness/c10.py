"""C10 — hierarchical bases interpolate: surpluses reproduce every nodal value.

L  Lagrange bases with SYMBOLIC ordered knots (p <= 3): phi_i(knot_j) = delta_ij; restricted variants vanish outside their support.
K  calculus on concrete dyadic knots with symbolic evaluation/integration bounds: first/second derivative and get_integral of
   LagrangeBasis, first/second derivative and partition of unity of BSpline, checked through the fundamental theorem with an exact
   Newton-Cotes rule (algebraic stand-in for "agrees with numerical differentiation / integration").
H  hierarchise -> interpolate on the real grids (local LagrangeGrid / BSplineGrid, global GlobalLagrangeGrid / GlobalBSplineGrid on
   solver-chosen refinement trees), uninterpreted vector-valued F: interpolation at all grid points returns the nodal values,
   point-wise (`interpolate`) and on a tensor grid (`interpolate_grid`); collocation systems uniquely solvable (exact elimination
   raises on a singular matrix); polynomials of degree <= min(p, n-1) with symbolic coefficients are reproduced at a symbolic point.
"""
import itertools
from fractions import Fraction

import numpy as np

from lift import core, lib
from lift.core import sym_and, is_sym
from lift.run import Job

PROPERTY = 'C10'


def _B():
    from sparseSpACE import BasisFunctions
    return BasisFunctions


def _G():
    from sparseSpACE import Grid
    return Grid


def lagrange_delta(S, p):
    B = _B()
    if p <= 2:
        knots = lib.sorted_reals(S, 'k', p + 1)
    else:
        # p = 3 with four symbolic knots exceeds the solver cap (products of three inverse atoms); one knot symbolic, the others dyadic
        k1 = S.real('k1')
        S.assume(k1 > 0.0)
        S.assume(k1 < 0.5)
        knots = [0.0, k1, 0.5, 1.0]
    ok = True
    for i in range(p + 1):
        phi = B.LagrangeBasis(p, i, list(knots))
        for j in range(p + 1):
            ok = sym_and(ok, S.eq(phi(knots[j]), 1 if i == j else 0))
    S.prove(ok, 'lagrange:phi_i(knot_j)=delta_ij')
    x = S.real('x')
    for i in range(p + 1):
        r = B.LagrangeBasisRestricted(p, i, list(knots))
        lo, hi = knots[max(0, i - 1)], knots[min(i + 1, p)]
        v = r(x)
        inside = sym_and(x >= lo, x <= hi)
        if S.lifted:
            inside = bool(inside)
        if not inside:
            S.prove(S.eq(v, 0), 'lagrange:restricted-basis-vanishes-outside-support')
        else:
            S.prove(S.eq(v, B.LagrangeBasis(p, i, list(knots))(x)), 'lagrange:restricted-basis-equals-basis-inside-support')


def _boole(g, u, v):
    nodes = [Fraction(k, 4) for k in range(5)]
    w = [Fraction(7, 90), Fraction(32, 90), Fraction(12, 90), Fraction(32, 90), Fraction(7, 90)]
    return sum(wi * g(u + (v - u) * t) for wi, t in zip(w, nodes)) * (v - u)


def lagrange_calculus(S, p, i):
    B = _B()
    from numpy.polynomial import legendre
    knots = [k / 4.0 for k in range(p + 1)]
    phi = B.LagrangeBasis(p, i, list(knots))
    u, v = S.real('u'), S.real('v')
    S.assume(u < v)
    # the library evaluates 1/(k_i-k_j) in floats (e.g. 1/0.75): identities hold up to that rounding, compared coefficient-wise
    S.prove(S.close(_boole(phi.get_first_derivative, u, v), phi(v) - phi(u), 1e-10), 'lagrange:first-derivative-integrates-to-the-basis')
    S.prove(S.close(_boole(phi.get_second_derivative, u, v), phi.get_first_derivative(v) - phi.get_first_derivative(u), 1e-10),
            'lagrange:second-derivative-integrates-to-the-first')
    cg, wg = legendre.leggauss(int(p / 2) + 1)
    got = phi.get_integral(u, v, cg, wg)
    S.prove(S.close(got, _boole(phi, u, v), 1e-12), 'lagrange:get_integral-is-the-integral-of-the-basis')


def bspline_calculus(S, p, nknots):
    B = _B()
    knots = [k / 4.0 for k in range(nknots)]
    nb = nknots - p - 1
    x = S.real('x')
    S.assume(x >= knots[p])
    S.assume(x < knots[nknots - p - 1])
    tot = sum(B.BSpline(p, k, knots)(x) for k in range(nb))
    S.prove(S.eq(tot, 1), 'bspline:partition-of-unity')
    u, v = S.real('u'), S.real('v')
    # inside one knot span (one polynomial piece)
    span = S.choice('span', nknots - 1)
    S.assume(u > knots[span])  # strictly inside one span: derivatives of low-order splines jump at the knots
    S.assume(v < knots[span + 1])
    S.assume(u < v)
    k = S.choice('basis', nb)
    b = B.BSpline(p, k, knots)
    S.prove(S.close(_boole(b.get_first_derivative, u, v), b(v) - b(u), 1e-10), 'bspline:first-derivative-integrates-to-the-basis')
    S.prove(S.close(_boole(b.get_second_derivative, u, v), b.get_first_derivative(v) - b.get_first_derivative(u), 1e-10), 'bspline:second-derivative-integrates-to-the-first')


def _poly_function(S, d, deg, coeffs):
    from sparseSpACE.Function import Function

    class Poly(Function):
        def eval(self, x):
            tot = 0
            for e, c in coeffs.items():
                t = c
                for k in range(d):
                    t = t * x[k] ** e[k]
                tot = tot + t
            return tot

        def eval_vectorized(self, coordinates):
            coordinates = np.asarray(coordinates)
            out = np.empty(coordinates.shape[:-1] + (1,), dtype=object if S.lifted else float)
            for idx in np.ndindex(coordinates.shape[:-1]):
                out[idx] = self.eval(coordinates[idx])
            return out

    return Poly()


def hier_local(S, family, p, levels, boundary, out_len, box, sub=None):
    G = _G()
    d = len(levels)
    a = np.array([box[0]] * d, dtype=float)
    b = np.array([box[1]] * d, dtype=float)
    grid = (G.LagrangeGrid if family == 'lagrange' else G.BSplineGrid)(a, b, boundary=boundary, p=p)
    if sub is not None:
        # the grid is used on a sub-area of its domain (what the extend-split scheme does after the first split): [a,b] above stays the
        # domain of the grid object, the operations below run on [start,end]
        w = box[1] - box[0]
        a = np.array([box[0] + sub[k % len(sub)][0] * w for k in range(d)], dtype=float)
        b = np.array([box[0] + sub[k % len(sub)][1] * w for k in range(d)], dtype=float)
    f = lib.make_function(S, 'F', d, out_len)
    integral = grid.integrate(f, list(levels), a, b)
    pts = [tuple(float(x) for x in q) for q in grid.getPoints()]
    S.observe('npoints', len(pts))
    vals = grid.interpolate(pts, a, b, list(levels))
    ok = True
    for q, v in zip(pts, vals):
        want = f.F(list(q))
        ok = sym_and(ok, *[S.eq(v[j], want[j]) for j in range(out_len)])
    S.prove(ok, 'hier:interpolate-returns-nodal-values-at-grid-points')
    axes = [[float(x) for x in grid.coordinate_array[k]] for k in range(d)]
    vg = grid.interpolate_grid(axes, a, b, list(levels))
    ok = True
    for n, q in enumerate(itertools.product(*axes)):
        want = f.F(list(q))
        ok = sym_and(ok, *[S.eq(vg[n][j], want[j]) for j in range(out_len)])
    S.prove(ok, 'hier:interpolate_grid-returns-nodal-values-at-grid-points')
    # the integral is the weighted sum of the surpluses (what the integrator reports) - recorded for translator validation
    S.observe('integral', list(np.ravel(integral)))


def poly_local(S, family, p, level, box):
    """1-D: polynomials of degree <= min(p, n-1) with symbolic coefficients are reproduced at a symbolic point."""
    G = _G()
    a = np.array([box[0]], dtype=float)
    b = np.array([box[1]], dtype=float)
    grid = (G.LagrangeGrid if family == 'lagrange' else G.BSplineGrid)(a, b, boundary=True, p=p)
    n = 2 ** level + 1
    deg = min(p, n - 1)
    coeffs = {(e,): S.real('c%d' % e) for e in range(deg + 1)}
    f = _poly_function(S, 1, deg, coeffs)
    grid.integrate(f, [level], a, b)
    x = S.real('x')
    S.assume(x >= box[0])
    S.assume(x <= box[1])
    v = grid.interpolate([(x,)], a, b, [level])
    scale = 1 + sum(abs(c) for c in coeffs.values())
    S.prove(S.close(v[0][0], f.eval((x,)), 1e-9, scale), 'hier:polynomials-up-to-min(p,n-1)-reproduced-at-a-symbolic-point')


def hier_global(S, family, p, npts, boundary, out_len):
    G = _G()
    from sparseSpACE.ComponentGridInfo import ComponentGridInfo
    d = len(npts)
    a = np.zeros(d)
    b = np.ones(d)
    grid = (G.GlobalLagrangeGrid if family == 'lagrange' else G.GlobalBSplineGrid)(a, b, boundary=boundary, p=p)
    xs, lv = [], []
    for k in range(d):
        t = lib.tree_levels(S, 'tree%d' % k, npts[k])
        lv.append(list(t))
        xs.append([float(x) for x in lib.dyadic_coords(t, 0.0, 1.0)])
    grid.set_grid(xs, lv)
    f = lib.make_function(S, 'F', d, out_len)
    levelvec = [max(l) for l in lv]
    integral = grid.integrate(f, levelvec, a, b)
    cg = ComponentGridInfo(levelvector=levelvec, coefficient=1)
    pts = [tuple(float(x) for x in q) for q in grid.getPoints()]
    vals = grid.interpolate(pts, cg)
    ok = True
    for q, v in zip(pts, vals):
        want = f.F(list(q))
        ok = sym_and(ok, *[S.eq(v[j], want[j]) for j in range(out_len)])
    S.prove(ok, 'global:interpolate-returns-nodal-values-at-grid-points')
    axes = [[float(x) for x in grid.coordinate_array[k]] for k in range(d)]
    vg = grid.interpolate_grid(axes, cg)
    ok = True
    for n, q in enumerate(itertools.product(*axes)):
        want = f.F(list(q))
        ok = sym_and(ok, *[S.eq(vg[n][j], want[j]) for j in range(out_len)])
    S.prove(ok, 'global:interpolate_grid-returns-nodal-values-at-grid-points')
    S.observe('integral', list(np.ravel(integral)))


def _refine(levels, i):
    lv = list(levels)
    lv.insert(i + 1, max(lv[i], lv[i + 1]) + 1)
    return lv


def _tree17(kind):
    """Three refinement trees with 17 points: complete (level 4), left-heavy and right-heavy (complete level 3, then the outermost
    interval refined eight times)."""
    lv = [0, 0]
    for _ in range(3 if kind != 'complete' else 4):
        for i in range(len(lv) - 2, -1, -1):
            lv = _refine(lv, i)
    if kind == 'left':
        for _ in range(8):
            lv = _refine(lv, 0)
    elif kind == 'right':
        for _ in range(8):
            lv = _refine(lv, len(lv) - 2)
    assert len(lv) == 17 and lib.valid_tree(lv), lv
    return lv


def hier_global_long(S, family, p, out_len):
    """Poles with >= 15 points (QR branch of HierarchizationLSG) on ONE grid object that is given a second, different 17-point grid
    afterwards (as the adaptive schemes do): hierarchisation + interpolation reproduces the nodal values both times."""
    G = _G()
    from sparseSpACE.ComponentGridInfo import ComponentGridInfo
    a, b = np.zeros(1), np.ones(1)
    grid = (G.GlobalLagrangeGrid if family == 'lagrange' else G.GlobalBSplineGrid)(a, b, boundary=True, p=p)
    kinds = ['complete', 'left', 'right']
    first = S.choice('first', 3)
    second = S.choice('second', 3)
    for rnd, k in enumerate((kinds[first], kinds[second])):
        lv = _tree17(k)
        xs = [float(x) for x in lib.dyadic_coords(lv, 0.0, 1.0)]
        grid.set_grid([xs], [lv])
        f = lib.make_function(S, 'F%d' % rnd, 1, out_len)
        levelvec = [max(lv)]
        grid.integrate(f, levelvec, a, b)
        cg = ComponentGridInfo(levelvector=levelvec, coefficient=1)
        pts = [tuple(float(x) for x in q) for q in grid.getPoints()]
        vals = grid.interpolate(pts, cg)
        ok = True
        for q, v in zip(pts, vals):
            want = f.F(list(q))
            ok = sym_and(ok, *[S.eq(v[j], want[j]) for j in range(out_len)])
        S.prove(ok, 'global-long:interpolate-returns-nodal-values-at-grid-points-(grid %d on the same object)' % (rnd + 1))


def hier_global_relabel(S, family, p, n, out_len):
    """ONE grid object is given two grids one after the other with the SAME coordinates but a different refinement tree (level labelling) -
    what rebalancing does in the dimension-wise scheme (the points stay, the levels are re-labelled).  Hierarchisation followed by
    interpolation reproduces the nodal values both times.  Both trees are solver choices (all pairs of trees with n points)."""
    G = _G()
    from sparseSpACE.ComponentGridInfo import ComponentGridInfo
    a, b = np.zeros(1), np.ones(1)
    grid = (G.GlobalLagrangeGrid if family == 'lagrange' else G.GlobalBSplineGrid)(a, b, boundary=True, p=p)
    tA = lib.tree_levels(S, 'treeA', n)
    tB = lib.tree_levels(S, 'treeB', n)
    xs = [float(x) for x in lib.dyadic_coords(tA, 0.0, 1.0)]
    for rnd, lv in enumerate((list(tA), list(tB))):
        grid.set_grid([xs], [lv])
        f = lib.make_function(S, 'F%d' % rnd, 1, out_len)
        levelvec = [max(lv)]
        grid.integrate(f, levelvec, a, b)
        cg = ComponentGridInfo(levelvector=levelvec, coefficient=1)
        pts = [tuple(float(x) for x in q) for q in grid.getPoints()]
        vals = grid.interpolate(pts, cg)
        ok = True
        for q, v in zip(pts, vals):
            want = f.F(list(q))
            ok = sym_and(ok, *[S.eq(v[j], want[j]) for j in range(out_len)])
        S.prove(ok, 'global-relabel:interpolate-returns-nodal-values-at-grid-points-(labelling %d on the same object and coordinates)' % (rnd + 1))


BOUNDS = {
    'quick': {'symbolic knots': 'p <= 2 all knots symbolic; p = 3 one symbolic knot', 'calculus': 'p <= 3 Lagrange, p in {1,3} B-spline on 8..10 uniform knots', 'local grids': 'd=1 levels <= 3, d=2 levels <= (2,2), p in {1,2,3} (B-spline 1,3), output length 1/2',
              'global grids': 'trees with <= 6 points (d=1), (4,3) points (d=2), p in {1,2,3}'},
    'thorough': {'symbolic knots': 'p <= 2 all knots symbolic; p = 3 one symbolic knot', 'calculus': 'p <= 3', 'local grids': 'd=1 levels <= 4, d=2 levels <= (3,2)', 'global grids': 'trees with <= 8 points (d=1), (5,4) (d=2)'},
}

META = {
    'functions': ['LagrangeBasis.__call__/get_first_derivative/get_second_derivative/get_integral', 'LagrangeBasisRestricted.*', 'BSpline.recursive_eval/chi/get_first_derivative/get_second_derivative',
                  'HierarchicalNotAKnotBSpline.*', 'HierarchizationLSG.__call__/hierarchize_poles_for_dim', 'IntegratorHierarchicalBasisFunctions.__call__', 'BasisGrid.integrate/interpolate/interpolate_grid',
                  'LagrangeGrid1D.compute_1D_quad_weights/get_parent', 'BSplineGrid1D.compute_1D_quad_weights', 'GlobalBasisGrid.integrate/interpolate/interpolate_grid',
                  'GlobalLagrangeGrid.compute_1D_quad_weights', 'GlobalBSplineGrid.compute_1D_quad_weights/get_full_level_hierarchy'],
    'bounds': BOUNDS,
    'assumptions': ['numpy.linalg.solve replaced by exact rational elimination on the concrete collocation matrix (contract: the solution; a singular matrix raises) - the symbolic nodal values are the right-hand side',
                    'grid geometry concrete (dyadic); knots symbolic only in the delta property', 'identities through Gauss nodes / inexact float constants compared coefficient-wise with 1e-12 (1e-9 for the polynomial reproduction)'],
    'outside': ['QR branch (>= 15 points per pole) beyond the 17-point 1-D grids of hier-global-long; numpy.linalg.qr + scipy solve_triangular are modelled jointly as an exact solve', 'p > 3', 'd > 2', 'modified-basis variants'],
}

MANIFEST_ENTRY = {
    'text': 'Lagrange delta property with symbolic knots; derivative/integral identities with symbolic bounds; hierarchisation followed by interpolation on the real local and global basis grids '
            'with an uninterpreted vector-valued function - reproduction of all nodal values is a linear-arithmetic validity query over all functions; also on sub-areas of the grid domain and for one grid '
            'object that is given the same coordinates with another refinement tree (solver-chosen pairs of trees).',
    'note': 'Trusted: z3, LIFT proxies/numpy facade, the exact linear-solve stand-in for numpy.linalg.solve.',
}


def jobs(tier):
    q = tier == 'quick'
    js = []
    for p in (1, 2, 3):
        js.append(Job('lagrange-delta[p=%d]' % p, lagrange_delta, {'p': p}, timeout_ms=60000, budget_s=(600 if q else 3000)))
        for i in range(p + 1):
            js.append(Job('lagrange-calculus[p=%d,i=%d]' % (p, i), lagrange_calculus, {'p': p, 'i': i}))
    for p in (1, 3) if q else (1, 2, 3):
        js.append(Job('bspline-calculus[p=%d]' % p, bspline_calculus, {'p': p, 'nknots': 2 * p + 4}, validate=(7 if q else 2), budget_s=(600 if q else 3000)))
    n = 0
    for family, ps in (('lagrange', (1, 2, 3)), ('bspline', (1, 3))):
        for p in ps:
            for levels in ([(1,), (2,), (3,), (1, 1), (2, 1), (2, 2)] if q else [(1,), (2,), (3,), (4,), (1, 1), (2, 1), (2, 2), (3, 2)]):
                for boundary in (True, False):
                    out_len = 2 if n % 2 else 1
                    box = (0.0, 1.0) if n % 3 else (-3.0, 6.0)
                    n += 1
                    js.append(Job('hier-local[%s,p=%d,l=%s,%s,out=%d]' % (family, p, 'x'.join(map(str, levels)), 'b' if boundary else 'nb', out_len), hier_local,
                                  {'family': family, 'p': p, 'levels': list(levels), 'boundary': boundary, 'out_len': out_len, 'box': list(box)}, budget_s=(600 if q else 3000)))
            for levels, sub in ([((2,), [(0.0, 0.5)]), ((2, 1), [(0.5, 1.0), (0.25, 0.5)])] if q else [((1,), [(0.5, 1.0)]), ((2,), [(0.0, 0.5)]), ((3,), [(0.25, 0.5)]), ((2, 1), [(0.5, 1.0), (0.25, 0.5)]), ((2, 2), [(0.0, 0.5), (0.5, 0.75)])]):
                out_len = 2 if n % 2 else 1
                box = (0.0, 1.0) if n % 3 else (-3.0, 6.0)
                n += 1
                js.append(Job('hier-local-sub[%s,p=%d,l=%s,sub=%s,out=%d]' % (family, p, 'x'.join(map(str, levels)), sub, out_len), hier_local,
                              {'family': family, 'p': p, 'levels': list(levels), 'boundary': True, 'out_len': out_len, 'box': list(box), 'sub': [list(x) for x in sub]}, budget_s=(600 if q else 3000)))
            for level in ((1, 2, 3) if q else (1, 2, 3, 4)):
                js.append(Job('poly-local[%s,p=%d,l=%d]' % (family, p, level), poly_local, {'family': family, 'p': p, 'level': level, 'box': [0.0, 1.0]},
                              validate=(3 if q else 1), budget_s=(600 if q else 3000)))
    for family, ps in (('lagrange', (1, 2, 3)), ('bspline', (1, 3))):
        for p in ps:
            for npts in ([(3,), (4,), (5,), (6,), (4, 3)] if q else [(3,), (4,), (5,), (6,), (7,), (8,), (4, 3), (5, 4)]):
                for boundary in (True, False):
                    if not boundary and min(npts) < 4:
                        continue
                    js.append(Job('hier-global[%s,p=%d,pts=%s,%s]' % (family, p, 'x'.join(map(str, npts)), 'b' if boundary else 'nb'), hier_global,
                                  {'family': family, 'p': p, 'npts': list(npts), 'boundary': boundary, 'out_len': 2 if p == 2 else 1},
                                  validate=(5 if q else 2), budget_s=(600 if q else 3000)))
    for family, ps in (('lagrange', (1, 2) if q else (1, 2, 3)), ('bspline', (1,) if q else (1, 3))):
        for p in ps:
            js.append(Job('hier-global-long[%s,p=%d,pts=17,b]' % (family, p), hier_global_long, {'family': family, 'p': p, 'out_len': 1},
                          validate=(3 if q else 1), budget_s=(600 if q else 3000)))
    for family, ps in (('lagrange', (1, 2, 3)), ('bspline', (1, 3))):
        for p in ps:
            for n in ((4, 5) if q else (4, 5, 6)):
                js.append(Job('hier-global-relabel[%s,p=%d,pts=%d]' % (family, p, n), hier_global_relabel, {'family': family, 'p': p, 'n': n, 'out_len': 2 if p == 2 else 1},
                              validate=(3 if q else 1), budget_s=(600 if q else 3000)))
    return js
