"""C05 — the reported result is the combination of the component results.

dimension-wise: the real performSpatiallyAdaptiv loop on an uninterpreted integrand (output length 1 or 2), solver-chosen refinement
  decisions (P3) and a solver-chosen number of refinement rounds (= every stopping point up to k):
    reported result == sum_g c_g * (trapezoidal rule on component grid g, computed by the harness on the real 1-D point sets)
                    == sum_g c_g * (fresh Integration/GlobalTrapezoidalGrid objects applied to component grid g)
                    == evaluate_final_combi() (re-evaluation from scratch)
                    == the result of an identical run with reevaluate_at_end=True
                    == sum_i W_i F(P_i) over get_points_and_weights()
dim-adaptive (DimAdaptiveCombi.perform_combi): reported integral == sum_g c_g * trapezoidal rule on grid g of the final scheme.
extend-split: histories of scripted error flags up to an evaluation cap; reported result == sum over leaf areas and computed component
  grids of c_g * trapezoidal rule on the area == evaluate_final_combi() == run with reevaluate_at_end=True (vector-valued F included).
standard: covered by C02 (integral:* goals) and re-checked here through get_points_and_weights for vector-valued F.
"""
import itertools
from fractions import Fraction

import numpy as np

from lift import core, lib
from lift.core import sym_and, is_sym
from lift.run import Job
from harness import dw, drv, es

PROPERTY = 'C05'


def _run(S, d, lmin, lmax, version, boundary, out_len, rounds, max_sel, reevaluate, f, tag):
    SD, GO, G, EC, RO, RC = dw.mods()
    sa, op, grid = dw.make_instance(f, [0.0] * d, [1.0] * d, boundary=boundary, version=version)
    est = drv.ScriptedRoundErrors(sa, d, rounds, max_sel)
    op.validation_set = None
    res = sa.performSpatiallyAdaptiv(lmin, lmax, est, tol=0.0, max_evaluations=None, print_output=False, reevaluate_at_end=reevaluate)
    sa._verif_estimator = est
    return sa, op, res


def dimwise(S, d, lmin, lmax, version, boundary, out_len, kmax, max_sel):
    SD, GO, G, EC, RO, RC = dw.mods()
    f = lib.make_function(S, 'F', d, out_len)
    rounds = S.choice('rounds', kmax + 1)  # the stopping point
    sa, op, res = _run(S, d, lmin, lmax, version, boundary, out_len, rounds, max_sel, False, f, 'A')
    result = [x for x in np.ravel(res[3])]
    S.observe('result', result)
    S.observe('evals', [int(x) for x in res[6]])
    S.prove(len(res[6]) == rounds + 1, 'dimwise:one-history-entry-per-evaluation')
    scheme = res[1]
    # (1) harness-side recombination
    tot = [0] * out_len
    for cg in scheme:
        part = drv.grid_trapezoid_sum(sa, cg, f, d, boundary, out_len)
        for j in range(out_len):
            tot[j] = tot[j] + cg.coefficient * part[j]
    S.prove(sym_and(*[S.eq(result[j], tot[j]) for j in range(out_len)]), 'dimwise:result-is-coefficient-weighted-sum-of-component-rules')
    # (2) fresh objects per component grid
    tot2 = [0] * out_len
    for cg in scheme:
        coords, levels, _ = sa.get_point_coord_for_each_dim(cg.levelvector)
        g2 = G.GlobalTrapezoidalGrid(np.zeros(d), np.ones(d), boundary=boundary)
        g2.set_grid(coords, levels)
        part = g2.integrate(f, cg.levelvector, np.zeros(d), np.ones(d))
        part = np.ravel(part)
        for j in range(out_len):
            tot2[j] = tot2[j] + cg.coefficient * part[j]
    S.prove(sym_and(*[S.eq(result[j], tot2[j]) for j in range(out_len)]), 'dimwise:result-is-combination-of-independent-grid-operations')
    # (3) public points and weights
    P, W = sa.get_points_and_weights()
    tot3 = [0] * out_len
    for p, w in zip(P, W):
        fv = f.F([float(x) for x in p])
        for j in range(out_len):
            tot3[j] = tot3[j] + w * fv[j]
    S.prove(sym_and(*[S.eq(result[j], tot3[j]) for j in range(out_len)]), 'dimwise:points-and-weights-reproduce-result')
    # (4) re-evaluation from scratch
    again, nev = sa.evaluate_final_combi()
    again = [x for x in np.ravel(again)]
    S.prove(sym_and(*[S.eq(result[j], again[j]) for j in range(out_len)]), 'dimwise:evaluate_final_combi-reproduces-result')
    # (5) identical run with reevaluate_at_end=True
    sa2, op2, res2 = _run(S, d, lmin, lmax, version, boundary, out_len, rounds, max_sel, True, f, 'B')
    r2 = [x for x in np.ravel(res2[3])]
    S.prove(sym_and(*[S.eq(result[j], r2[j]) for j in range(out_len)]), 'dimwise:reevaluate_at_end-does-not-change-result')
    if rounds > 1:
        return  # the second stop is explored after at most one earlier round (bounds the number of histories)
    # (6) a second stop of the SAME instance: one more solver-chosen refinement round through continue_adaptive_refinement; the public points and
    # weights asked for again must belong to the new stop (the scheme may or may not have changed in between)
    sa._verif_estimator.rounds = len(sa.error_array) + 1  # the continuation first re-evaluates the stop it starts from (one more history entry), then refines once
    n_before = int(res[6][-1])
    sa._verif_estimator.pool = 3  # the extra round picks among the first three intervals (bounds the number of histories)
    res3 = sa.continue_adaptive_refinement(tol=0.0, max_evaluations=None)
    r3 = [x for x in np.ravel(res3[3])]
    P, W = sa.get_points_and_weights()
    tot6 = [0] * out_len
    for p, w in zip(P, W):
        fv = f.F([float(x) for x in p])
        for j in range(out_len):
            tot6[j] = tot6[j] + w * fv[j]
    S.observe('second stop points', [n_before, int(res3[6][-1])])
    S.prove(sym_and(*[S.eq(r3[j], tot6[j]) for j in range(out_len)]), 'dimwise:points-and-weights-reproduce-result-at-a-second-stop-of-the-same-instance')


def dimadaptive(S, d, out_len, max_points):
    from sparseSpACE.DimAdaptiveCombi import DimAdaptiveCombi
    SD, GO, G, EC, RO, RC = dw.mods()
    f = lib.make_function(S, 'F', d, out_len)
    a, b = np.zeros(d), np.ones(d)
    grid = G.TrapezoidalGrid(a=a, b=b, boundary=True)
    ref = np.array([S.real('ref%d' % j) for j in range(out_len)], dtype=object if S.lifted else float)
    for j in range(out_len):
        S.assume(ref[j] > 0)
    op = GO.Integration(f=f, grid=grid, dim=d, reference_solution=ref)
    combi = DimAdaptiveCombi(a, b, op, norm=np.inf)  # the 2-norm of a vector needs sqrt (nonlinear); inf-norm keeps the queries linear
    tol = S.real('tol')
    S.assume(tol > 0)
    scheme, err, integral, errors, npoints = combi.perform_combi(1, 2, tol, max_number_of_points=max_points)
    integral = [x for x in np.ravel(integral)]
    S.observe('scheme', sorted([[int(x) for x in cg.levelvector] + [int(cg.coefficient)] for cg in scheme]))
    tot = [0] * out_len
    for cg in scheme:
        lv = [int(x) for x in cg.levelvector]
        axes = []
        for k in range(d):
            n = 2 ** lv[k]
            axes.append([(i / n, (0.5 if i in (0, n) else 1.0) / n) for i in range(n + 1)])
        for combo in itertools.product(*axes):
            w = 1.0
            for c in combo:
                w *= c[1]
            fv = f.F([c[0] for c in combo])
            for j in range(out_len):
                tot[j] = tot[j] + cg.coefficient * w * fv[j]
    S.prove(sym_and(*[S.eq(integral[j], tot[j]) for j in range(out_len)]), 'dimadaptive:result-is-coefficient-weighted-sum-over-final-scheme')
    S.prove(sum(cg.coefficient for cg in scheme) == 1, 'dimadaptive:coefficients-sum-to-one')


BOUNDS = {
    'quick': {'dimension-wise': 'd=2, (lmin,lmax)=(1,2), versions 6 and 3, boundary on/off, output length 1/2, stops after 0..2 refinement rounds, 1 selected interval per round (or all)',
              'dim-adaptive': 'd=2, maxv=2 (as the code demands), at most 30 points, output length 1/2',
              'extend-split': 'd=2, (1,2), versions 0/1, 1-2 refinements before extend, automatic extend/split on/off, output length 1/2, every history of scripted error flags '
                              '(2 candidate areas per round) up to an evaluation cap of 30/60 points'},
    'thorough': {'dimension-wise': 'd=2: (1,2) stops after 0..3 rounds, (1,3)/(2,3) 0..2 rounds; d=3: (1,2) 0..2 rounds; versions 6,2,3,7,8; boundary on/off; 1 selected interval per round (or all)',
                 'dim-adaptive': 'd=2 at most 60 points, d=3 at most 40 points',
                 'extend-split': 'd=2 (1,2): versions 0,1,2 x nrbe 1,2 x output length 1,2 with caps 30/60/110; automatic extend/split caps 36/60; (1,3) cap 130; d=3 (1,2) cap 160'},
}

META = {
    'functions': ['SpatiallyAdaptivBase.performSpatiallyAdaptiv', 'continue_adaptive_refinement', 'evaluate_operation', 'compute_solutions', 'evaluate_final_combi', 'refine',
                  'SpatiallyAdaptiveSingleDimensions2.evaluate_operation_area', 'init_evaluation_operation', 'finalize_evaluation_operation', 'get_points_and_weights_component_grid',
                  'StandardCombi.get_points_and_weights', 'Integration.calculate_operation_dimension_wise', 'Integration.initialize_evaluation_dimension_wise', 'Integration.get_result',
                  'GlobalTrapezoidalGrid.*', 'GlobalGrid.set_grid', 'Grid.integrate', 'IntegratorArbitraryGridScalarProduct', 'DimAdaptiveCombi.perform_combi/calculate_surplus',
                  'Function.__call__', 'SpatiallyAdaptiveExtendScheme.*', 'RefinementObjectExtendSplit.*', 'Integration.process_removed_objects', 'Integration.evaluate_area'],
    'bounds': BOUNDS,
    'assumptions': ['refinement decisions are scripted (P3): in every round the solver picks one interval (or all) to refine; the number of rounds (stopping point) is a solver choice',
                    'tolerance 0 with an estimator that reports 0 after the chosen number of rounds is what ends the run; stopping rules themselves are C13'],
    'outside': ['dim-adaptive runs that never stop: perform_combi loops forever when the grid it selects is not refinable and neither the tolerance nor the point limit is met; such paths are cut at 4000 decisions and counted (paths_cut_at_decision_bound) - the property speaks about stops only', 'cell strategy', 'high-order / hierarchical grids', 'more rounds than stated'],
}

MANIFEST_ENTRY = {
    'text': 'The real adaptive driver runs on an uninterpreted integrand with solver-chosen refinement decisions and stopping point; the reported result is compared, as a term in F, '
            'with independent recombinations, with re-evaluation from scratch, with reevaluate_at_end=True and with the public points and weights - linear-arithmetic validity for every integrand.',
    'note': 'Trusted: z3, LIFT proxies/numpy facade. Known finding recorded for evaluate_final_combi / reevaluate_at_end in the dimension-wise strategy if it reproduces.',
}


def _area_trapezoid(f, start, end, lv, out_len):
    """Harness-side reference: trapezoidal rule with boundary points on the box [start,end] with 2**l_k cells in dimension k."""
    axes = []
    for k, l in enumerate(lv):
        n = 2 ** int(l)
        a, b = float(start[k]), float(end[k])
        h = (b - a) / n
        axes.append([(a + i * h, h / 2 if i in (0, n) else h) for i in range(n + 1)])
    tot = [0] * out_len
    for combo in itertools.product(*axes):
        w = 1.0
        for c in combo:
            w = w * c[1]
        fv = f.F([c[0] for c in combo])
        for j in range(out_len):
            tot[j] = tot[j] + w * fv[j]
    return tot


def extendsplit(S, d, lmin, lmax, version, nrbe, auto, pool, cap, out_len, grid_kind='trapezoid', real_benefits=False):
    """Extend-split with solver-chosen refinement histories up to the evaluation cap (every cap = another stopping point)."""
    f = lib.make_function(S, 'F', d, out_len)
    box = (0.0, 1.0)
    sa, op, a, b, res = es.run_es(S, d, lmin, lmax, box, True, version, nrbe, auto, False, pool, cap, f, grid_kind=grid_kind, real_benefits=real_benefits)
    result = list(np.ravel(res[3]))
    S.prove(len(result) == out_len, 'extendsplit:result-has-one-entry-per-output-component')
    S.observe('areas', len(es.leaves(sa)))
    tot = [0] * out_len
    for area in es.leaves(sa):
        for cg in sa.scheme:
            lv, do_compute = sa.coarsen_grid(cg.levelvector, area)
            if not do_compute:
                continue
            if grid_kind == 'trapezoid':
                part = _area_trapezoid(f, area.start, area.end, lv, out_len)
            else:
                # high-order local grid: the same rule on a FRESH grid object (the rule itself is C08/C10; here only the bookkeeping is at stake)
                from sparseSpACE import Grid as G
                fresh = G.LagrangeGrid(a=np.array(a, dtype=float), b=np.array(b, dtype=float), boundary=True, p=2)
                part = list(np.ravel(fresh.integrate(f, [int(x) for x in lv], area.start, area.end)))
            for j in range(out_len):
                tot[j] = tot[j] + cg.coefficient * part[j]
    S.prove(sym_and(*[S.eq(result[j], tot[j]) for j in range(out_len)]), 'extendsplit:result-is-coefficient-weighted-sum-over-areas-and-component-grids')
    again = list(np.ravel(sa.evaluate_final_combi()[0]))
    S.prove(sym_and(*[S.eq(result[j], again[j]) for j in range(out_len)]), 'extendsplit:evaluate_final_combi-reproduces-result')
    f2 = lib.make_function(S, 'F', d, out_len)
    sa2, op2, a2, b2, res2 = es.run_es(S, d, lmin, lmax, box, True, version, nrbe, auto, False, pool, cap, f2, reevaluate=True, grid_kind=grid_kind, real_benefits=real_benefits)
    r2 = list(np.ravel(res2[3]))
    S.prove(len(es.leaves(sa2)) == len(es.leaves(sa)), 'extendsplit:reevaluate_at_end-same-refinement')
    S.prove(sym_and(*[S.eq(result[j], r2[j]) for j in range(out_len)]), 'extendsplit:reevaluate_at_end-does-not-change-result')


def es_estimate_helpers(S, d, lmin, lmax, version, out_len, cap):
    """The extend/split benefit estimation evaluates extra combinations on an area (get_parent_extend_operation -> evaluate_operation_area_complete_flexibel
    -> Integration.evaluate_area_for_error_estimates).  It must be an observation: the area's stored value - which is what is subtracted from the running
    result when the area is refined - and the running result itself are the same afterwards, and the error correction is value minus the coarser
    combination.  (The real benefit formulas, quotients of these quantities, are outside; this is the part of them that touches the bookkeeping.)"""
    f = lib.make_function(S, 'F', d, out_len)
    sa, op, a, b, res = es.run_es(S, d, lmin, lmax, (0.0, 1.0), True, version, 1, False, False, 1, cap, f)
    leaves = es.leaves(sa)
    k = S.choice('leaf', len(leaves))
    area = leaves[k]
    value0 = [x for x in np.ravel(area.value)]
    result0 = [x for x in np.ravel(op.get_result())]
    coarsening0 = int(area.coarseningValue)
    area.switch_to_parent_estimation = True
    sa.get_parent_extend_operation(area)
    S.prove(sym_and(*[S.eq(x, y) for x, y in zip(np.ravel(area.value), value0)]), 'estimate:area-value-unchanged-by-the-extend-benefit-estimation')
    S.prove(sym_and(*[S.eq(x, y) for x, y in zip(np.ravel(op.get_result()), result0)]), 'estimate:running-result-unchanged-by-the-extend-benefit-estimation')
    S.prove(int(area.coarseningValue) == coarsening0, 'estimate:coarsening-value-restored')
    corr = area.parent_info.get_extend_error_correction()
    S.prove(corr is not None and len(np.ravel(corr)) == out_len, 'estimate:error-correction-computed')
    # removing the area afterwards subtracts exactly what it contributed
    op.process_removed_objects([area])
    S.prove(sym_and(*[S.eq(x, y - v) for x, y, v in zip(np.ravel(op.get_result()), result0, value0)]), 'estimate:removing-the-area-afterwards-subtracts-its-contribution')


def jobs(tier):
    js = []
    q = tier == 'quick'
    for (d, lmin, lmax, version, nrbe, auto, out_len, caps) in (
            [(2, 1, 2, 0, 1, False, 2, (30, 60)), (2, 1, 2, 0, 2, False, 1, (60,)), (2, 1, 2, 1, 1, False, 2, (60,)), (2, 1, 2, 0, 1, True, 2, (30,))] if q else
            [(2, 1, 2, v, n, False, o, (30, 60, 110)) for v in (0, 1, 2) for n in (1, 2) for o in (1, 2)] + [(2, 1, 2, 0, 1, True, 2, (36, 60)), (2, 1, 3, 0, 1, False, 2, (130,)),
                                                                                                          (3, 1, 2, 0, 1, False, 2, (160,))]):
        for cap in caps:
            js.append(Job('extendsplit[d=%d,l=%d-%d,v=%d,nrbe=%d%s,out=%d,cap=%d]' % (d, lmin, lmax, version, nrbe, ',auto' if auto else '', out_len, cap), extendsplit,
                          {'d': d, 'lmin': lmin, 'lmax': lmax, 'version': version, 'nrbe': nrbe, 'auto': auto, 'pool': 1 if (q and auto) else 2, 'cap': cap, 'out_len': out_len},
                          validate=(7 if q else 3), budget_s=(600 if q else 3000)))
    for (version, out_len, cap) in ([(0, 1, 30), (0, 2, 45)] if q else [(0, 1, 30), (0, 2, 45), (1, 1, 45), (2, 2, 60)]):
        js.append(Job('es-estimate[d=2,l=1-2,v=%d,out=%d,cap=%d]' % (version, out_len, cap), es_estimate_helpers,
                      {'d': 2, 'lmin': 1, 'lmax': 2, 'version': version, 'out_len': out_len, 'cap': cap}, validate=(3 if q else 1), budget_s=(600 if q else 3000)))
    if tier == 'quick':
        cfgs = [(2, 1, 2, v, b, o, 2) for v in (6, 3) for b in (True, False) for o in (1, 2)]
    else:
        cfgs = [(2, 1, 2, v, b, o, 3) for v in (6, 2, 3, 7, 8) for b in (True, False) for o in (1, 2)]
        cfgs += [(2, lmin, 3, v, b, 1, 2) for lmin in (1, 2) for v in (6, 3) for b in (True, False)]
        cfgs += [(3, 1, 2, v, True, 1, 2) for v in (6, 3)]
    for (d, lmin, lmax, v, b, o, kmax) in cfgs:
        js.append(Job('dimwise[d=%d,l=%d-%d,v=%d,%s,out=%d,k<=%d]' % (d, lmin, lmax, v, 'b' if b else 'nb', o, kmax), dimwise,
                      {'d': d, 'lmin': lmin, 'lmax': lmax, 'version': v, 'boundary': b, 'out_len': o, 'kmax': kmax, 'max_sel': 1},
                      validate=(11 if tier == 'quick' else 5), budget_s=(600 if tier == 'quick' else 3000)))
    for (d, o, mp) in ([(2, 1, 30), (2, 2, 30)] if tier == 'quick' else [(2, 1, 60), (2, 2, 60), (3, 1, 40)]):
        js.append(Job('dimadaptive[d=%d,out=%d,maxpts=%d]' % (d, o, mp), dimadaptive, {'d': d, 'out_len': o, 'max_points': mp},
                      validate=(3 if tier == 'quick' else 1), budget_s=(600 if tier == 'quick' else 3000), max_decisions=4000, allow_limit=True))
    return js
