"""C13 — the adaptive driver honours its stopping rules and reports truthful numbers.

The real performSpatiallyAdaptiv / continue_adaptive_refinement loop of the dimension-wise strategy on an uninterpreted integrand
(scalar or vector valued) with symbolic reference solution, tolerance, min_evaluations and max_evaluations (bounded by a cap so
that the run ends within a few evaluations) and solver-chosen refinement decisions.  Goals on the returned tuple:
  one history entry per evaluation; refine() is called exactly between evaluations; at every non-final evaluation the stop
  predicate is false and at the final one it is true (first-stop); point counts non-decreasing; errors and benefits >= 0;
  reported error == relative (absolute for a zero reference) deviation of the reported result in the chosen norm;
  reported point count == number of distinct points at which the integrand was evaluated.
"""
import numpy as np

from lift import core, lib
from lift.core import sym_and, sym_or, sym_not, is_sym, ite
from lift.run import Job
from harness import dw, drv

PROPERTY = 'C13'


def _norm(vals, norm):
    vals = [abs(v) for v in vals]
    if norm == np.inf:
        r = vals[0]
        for v in vals[1:]:
            r = core.sym_max(r, v)
        return r
    if norm == 1:
        return sum(vals) / len(vals)
    raise AssertionError(norm)


def _reference(ref_kind, out_len):
    """Concrete non-zero references: a symbolic one makes the relative error a quotient of two solver variables (nonlinear, z3 times out);
    the integrand - and with it the result - is arbitrary, so every relative deviation is still covered.  'tiny' is a reference that is
    not zero but small in absolute terms (integrands scaled by 1e-9): the error is still the RELATIVE deviation."""
    if ref_kind == 'tiny':
        return np.array([1e-9, -5e-10, 2e-9][:out_len])
    return np.array([2.0, -0.5, 4.0][:out_len])


def stop_rules_es(S, d, lmin, lmax, version, nrbe, out_len, norm, ref_kind, cap, pool):
    """Extend-split driver: same goals as stop_rules (scripted error flags per new area)."""
    from harness import es
    ES, CELL, GO, G, EC, RO, RC = es.mods()
    f = lib.make_function(S, 'F', d, out_len)
    ref = None if ref_kind == 'none' else (np.zeros(out_len) if ref_kind == 'zero' else _reference(ref_kind, out_len))
    tol = S.real('tol')
    min_e = S.int('min_evaluations')
    max_e = S.int('max_evaluations')
    S.assume(min_e >= 0)
    S.assume(min_e <= cap)
    S.assume(max_e >= 0)
    S.assume(max_e <= cap)
    sa, op, grid, a, b = es.make_es(S, f, d, (0.0, 1.0), True, version, nrbe, False, False, pool)
    op.reference_solution = ref
    sa.norm = norm
    calls = {'refine': 0, 'log': []}
    orig_refine = sa.refine

    def counting_refine():
        calls['refine'] += 1
        calls['log'].append(len(sa.error_array))
        return orig_refine()

    sa.refine = counting_refine
    res = sa.performSpatiallyAdaptiv(lmin, lmax, None, tol=tol, max_evaluations=max_e, min_evaluations=min_e, print_output=False)
    refinement, scheme, lmax_out, result, n_evals, err_arr, pts_arr, surplus_arr = res[:8]
    n = len(err_arr)
    result = [x for x in np.ravel(result)]
    S.observe('n', n)
    S.observe('points', [int(p) for p in pts_arr])
    S.prove(len(pts_arr) == n and len(surplus_arr) == n, 'es:one-history-entry-per-evaluation')
    S.prove(calls['refine'] == n - 1 and calls['log'] == list(range(1, n)), 'es:refine-exactly-between-evaluations-never-after-the-stop')
    S.prove(all(int(pts_arr[i]) <= int(pts_arr[i + 1]) for i in range(n - 1)), 'es:point-counts-never-decrease')
    S.prove(sym_and(*[e >= 0 for e in err_arr]), 'es:errors-non-negative')
    S.prove(sym_and(*[e >= 0 for e in surplus_arr]), 'es:surplus-errors-non-negative')
    bens = [o.benefit for o in es.leaves(sa) if o.benefit is not None]
    S.prove(sym_and(*[b_ >= 0 for b_ in bens]), 'es:benefits-non-negative')
    stops = []
    for i in range(n):
        stops.append(sym_or(sym_and(err_arr[i] <= tol, int(pts_arr[i]) >= min_e), int(pts_arr[i]) > max_e))
    S.prove(sym_and(*[sym_not(stops[i]) for i in range(n - 1)]), 'es:no-stop-condition-met-before-the-final-evaluation')
    S.prove(stops[n - 1], 'es:stop-condition-met-at-the-final-evaluation')
    distinct = len(set(tuple(p) for p in f.eval_log))
    S.prove(int(pts_arr[-1]) == distinct, 'es:reported-point-count-is-number-of-distinct-evaluations')
    if ref is not None:
        if ref_kind == 'zero':
            want = _norm(result, norm)
        else:
            want = _norm([(ref[j] - result[j]) / ref[j] for j in range(out_len)], norm)
        S.prove(S.eq(err_arr[-1], want), 'es:reported-error-is-deviation-from-reference-in-the-chosen-norm')
    else:
        S.prove(S.eq(err_arr[-1], surplus_arr[-1]), 'es:without-reference-the-error-is-the-surplus-error')


def stop_rules(S, d, lmin, lmax, version, boundary, out_len, norm, ref_kind, cap, pool, prerun=False):
    SD, GO, G, EC, RO, RC = dw.mods()
    f = lib.make_function(S, 'F', d, out_len)
    log_start = 0
    if prerun:
        # an earlier, unrelated adaptive run used the same Function object (finer start level, one evaluation): the numbers reported by the
        # run under test must be those of that run alone
        sa0, op0, _ = dw.make_instance(f, [0.0] * d, [1.0] * d, boundary=True, version=version)
        op0.validation_set = None
        sa0.performSpatiallyAdaptiv(lmin, lmax + 1, drv.ScriptedRoundErrors(sa0, d, 0, 1, pool), tol=-1.0, max_evaluations=0, print_output=False)
        log_start = len(f.eval_log)
    if ref_kind == 'none':
        ref = None
    elif ref_kind == 'zero':
        ref = np.zeros(out_len)
    else:
        ref = _reference(ref_kind, out_len)
    tol = S.real('tol')
    min_e = S.int('min_evaluations')
    max_e = S.int('max_evaluations')
    S.assume(min_e >= 0)
    S.assume(min_e <= cap)  # otherwise "error <= tol" could never end the run and only the cap would
    S.assume(max_e >= 0)
    S.assume(max_e <= cap)
    sa, op, grid = dw.make_instance(f, [0.0] * d, [1.0] * d, boundary=boundary, version=version, reference=ref, norm=norm)
    op.validation_set = None
    est = drv.ScriptedRoundErrors(sa, d, None, 1, pool)
    calls = {'refine': 0, 'log': []}
    orig_refine = sa.refine

    def counting_refine():
        calls['refine'] += 1
        calls['log'].append(len(sa.error_array))
        return orig_refine()

    sa.refine = counting_refine
    res = sa.performSpatiallyAdaptiv(lmin, lmax, est, tol=tol, max_evaluations=max_e, min_evaluations=min_e, print_output=False)
    refinement, scheme, lmax_out, result, n_evals, err_arr, pts_arr, surplus_arr = res[:8]
    n = len(err_arr)
    result = [x for x in np.ravel(result)]
    S.observe('n', n)
    S.observe('points', [int(p) for p in pts_arr])
    S.prove(len(pts_arr) == n and len(surplus_arr) == n, 'one-history-entry-per-evaluation')
    S.prove(calls['refine'] == n - 1 and calls['log'] == list(range(1, n)), 'refine-exactly-between-evaluations-never-after-the-stop')
    S.prove(all(int(pts_arr[i]) <= int(pts_arr[i + 1]) for i in range(n - 1)), 'point-counts-never-decrease')
    S.prove(sym_and(*[e >= 0 for e in err_arr]), 'errors-non-negative')
    S.prove(sym_and(*[e >= 0 for e in surplus_arr]), 'surplus-errors-non-negative')
    bens = [o.benefit for (k, i, o) in dw.all_objects(sa, d) if o.benefit is not None]
    S.prove(sym_and(*[b >= 0 for b in bens]), 'benefits-non-negative')
    stops = []
    for i in range(n):
        stops.append(sym_or(sym_and(err_arr[i] <= tol, int(pts_arr[i]) >= min_e), int(pts_arr[i]) > max_e))
    S.prove(sym_and(*[sym_not(stops[i]) for i in range(n - 1)]), 'no-stop-condition-met-before-the-final-evaluation')
    S.prove(stops[n - 1], 'stop-condition-met-at-the-final-evaluation')
    # truthful numbers
    distinct = len(set(tuple(p) for p in f.eval_log[log_start:]))
    S.prove(int(pts_arr[-1]) == distinct, 'reported-point-count-is-number-of-distinct-evaluations')
    S.prove(int(pts_arr[-1]) == f.get_f_dict_size(), 'reported-point-count-is-cache-size')
    if ref is not None:
        if ref_kind == 'zero':
            want = _norm(result, norm)
        else:
            want = _norm([(ref[j] - result[j]) / ref[j] for j in range(out_len)], norm)
        S.prove(S.eq(err_arr[-1], want), 'reported-error-is-deviation-from-reference-in-the-chosen-norm')
    else:
        S.prove(S.eq(err_arr[-1], surplus_arr[-1]), 'without-reference-the-error-is-the-surplus-error')


BOUNDS = {
    'quick': {'strategy': 'dimension-wise, d=2, (lmin,lmax)=(1,2), version 6', 'cap on min/max_evaluations': 27, 'refinement decisions': 'one of the first 2 intervals per round (solver choice)',
              'reference': ['none', 'concrete non-zero (2, -0.5)', 'zero'], 'norms': ['inf', 1], 'output length': [1, 2], 'boundary': [True, False]},
    'thorough': {'strategy': 'dimension-wise, d=2, (lmin,lmax)=(1,2) and (1,3), versions 6 and 3', 'cap on min/max_evaluations': 33, 'refinement decisions': 'one of the first 2 intervals per round (solver choice)',
                 'reference': ['none', 'concrete non-zero (2, -0.5)', 'zero'], 'norms': ['inf', 1], 'output length': [1, 2], 'boundary': [True, False]},
}

META = {
    'functions': ['SpatiallyAdaptivBase.performSpatiallyAdaptiv', 'continue_adaptive_refinement', 'evaluate_operation', 'refine', 'finalize_evaluation_operation',
                  'Integration.get_global_error_estimate', 'MetaRefinementContainer.get_total_error/get_max_benefit/set_benefit/calc_error', 'StandardCombi.get_total_num_points',
                  'Integration.get_distinct_points', 'Function.__call__/get_f_dict_size', 'numpy.linalg.norm (facade)'],
    'bounds': BOUNDS,
    'assumptions': ['min_evaluations and max_evaluations are symbolic integers in [0, cap]; the cap bounds the number of evaluations on every path (each refinement adds points)',
                    'tolerance is an unconstrained symbolic real; the non-zero reference is concrete (2, -0.5): with a symbolic reference the relative error is a quotient of solver variables and z3 times out - the result itself is arbitrary (uninterpreted integrand)',
                    'refinement decisions are scripted (P3); the 2-norm is only exercised for scalar outputs where it is abs (sqrt is outside linear arithmetic)',
                    'norm convention of the code: ||.||_p / len**(1/p), i.e. max for inf and mean for p=1'],
    'outside': ['max_time (wall clock)', 'cell strategy', 'more evaluations than the cap allows'],
}

MANIFEST_ENTRY = {
    'text': 'The real adaptive loop is executed with symbolic tolerance, limits and reference on an uninterpreted integrand; every feasible stopping index is a path, and on each path the first-stop '
            'property, the history bookkeeping and the reported error/point count are SMT validity queries over all integrands, tolerances and limits; dimension-wise and extend-split drivers, '
            'references none / zero / ordinary / tiny, and a run on a Function object that an earlier run has used.',
    'note': 'Trusted: z3, LIFT proxies/numpy facade incl. the linalg.norm facade. Bounded by the evaluation cap.',
}


def jobs(tier):
    js = []
    q = tier == 'quick'
    cap = 27 if q else 33
    pool = 2  # three candidates per round (tried for the thorough tier) make one job cost 500-2000 s: the tier did not end within 45 minutes
    cfgs = []
    for boundary in (True, False):
        for ref_kind in ('none', 'sym', 'zero', 'tiny'):
            for out_len, norm in ((1, np.inf), (2, np.inf), (2, 1)):
                if q and not boundary and (ref_kind in ('zero', 'tiny') or (out_len, norm) == (2, np.inf)):
                    continue  # quick tier: without boundary points only the reference-free / ordinary-reference runs
                cfgs.append((2, 1, 2, 6, boundary, out_len, norm, ref_kind))
    if not q:
        for ref_kind in ('none', 'sym'):
            cfgs.append((2, 1, 3, 6, True, 1, np.inf, ref_kind))
            cfgs.append((2, 1, 2, 3, True, 2, 1, ref_kind))
    pre = [(2, 1, 2, 6, True, 1, np.inf, 'none')] if q else [(2, 1, 2, 6, True, 1, np.inf, 'none'), (2, 1, 2, 6, False, 2, 1, 'sym'), (2, 1, 2, 3, True, 2, np.inf, 'zero')]
    for (d, lmin, lmax, v, boundary, out_len, norm, ref_kind) in pre:
        c = cap if boundary else 27 - 18
        js.append(Job('stop-second-run[d=%d,l=%d-%d,v=%d,%s,out=%d,norm=%s,ref=%s]' % (d, lmin, lmax, v, 'b' if boundary else 'nb', out_len, 'inf' if norm == np.inf else '1', ref_kind),
                      stop_rules, {'d': d, 'lmin': lmin, 'lmax': lmax, 'version': v, 'boundary': boundary, 'out_len': out_len, 'norm': norm, 'ref_kind': ref_kind,
                                   'cap': c, 'pool': pool, 'prerun': True},
                      validate=(5 if q else 2), budget_s=(600 if q else 3000)))
    for (d, lmin, lmax, v, boundary, out_len, norm, ref_kind) in cfgs:
        c = cap if lmax == 2 else 60
        if not boundary:
            c = 27 - 18  # both tiers: without boundary points the grids are small, a cap of 15 means 17504 paths (1230 s) per job
        js.append(Job('stop[d=%d,l=%d-%d,v=%d,%s,out=%d,norm=%s,ref=%s]' % (d, lmin, lmax, v, 'b' if boundary else 'nb', out_len, 'inf' if norm == np.inf else '1', ref_kind),
                      stop_rules, {'d': d, 'lmin': lmin, 'lmax': lmax, 'version': v, 'boundary': boundary, 'out_len': out_len, 'norm': norm, 'ref_kind': ref_kind,
                                   'cap': c, 'pool': pool},
                      validate=(5 if q else 2), budget_s=(600 if q else 3000)))
    es_cfgs = [(2, 1, 2, 0, 1, 1, np.inf, 'none', 45), (2, 1, 2, 0, 1, 2, 1, 'sym', 45), (2, 1, 2, 1, 2, 2, np.inf, 'tiny', 45), (2, 1, 2, 0, 1, 1, np.inf, 'zero', 45)]
    if not q:
        es_cfgs += [(2, 1, 2, v, n, o, nm, rk, 54) for (v, n) in ((0, 2), (1, 1), (2, 1)) for (o, nm, rk) in ((1, np.inf, 'none'), (2, 1, 'sym'))]
    for (d, lmin, lmax, v, nrbe, out_len, norm, ref_kind, c) in es_cfgs:
        js.append(Job('stop-es[d=%d,l=%d-%d,v=%d,nrbe=%d,out=%d,norm=%s,ref=%s,cap=%d]' % (d, lmin, lmax, v, nrbe, out_len, 'inf' if norm == np.inf else '1', ref_kind, c), stop_rules_es,
                      {'d': d, 'lmin': lmin, 'lmax': lmax, 'version': v, 'nrbe': nrbe, 'out_len': out_len, 'norm': norm, 'ref_kind': ref_kind, 'cap': c, 'pool': 2},
                      validate=(5 if q else 2), budget_s=(600 if q else 3000)))
    return js
