"""C04 — refinement never loses exactness the initial configuration had.

dimension-wise (states S and histories H as in C03, real evaluate_operation / Integration / GlobalTrapezoidalGrid):
  * f = sum alpha*phi over the hierarchical hats of the INITIAL (lmin,lmax0) sparse-grid space, symbolic alpha:
    combined integral == sum alpha*vol(phi) and combined interpolant == f at cell centres/corners, in every state
  * modified basis (boundary off): every f = c0 + sum c_k x_k with symbolic c is integrated exactly, in every state, and the real
    surplus error estimator runs on it (real driver loop)
extend-split / cell strategies: every multilinear f = sum_{e in {0,1}^d} c_e x^e with symbolic c keeps combined integral == exact
  integral along solver-chosen refinement histories (see harness/es.py).
"""
import itertools
from fractions import Fraction

import numpy as np

from lift import core, lib
from lift.core import sym_and, is_sym
from lift.run import Job
from harness import dw, drv
from harness.c02 import HatSpace, _hat_function
from harness.c03 import _trees_refining_initial

PROPERTY = 'C04'


def _linear_function(S, d, coeffs):
    from sparseSpACE.Function import Function

    class Lin(Function):
        def eval(self, coordinates):
            v = coeffs[0]
            for k in range(d):
                v = v + coeffs[k + 1] * coordinates[k]
            return v

        def eval_vectorized(self, coordinates):
            coordinates = np.asarray(coordinates)
            out = np.empty(coordinates.shape[:-1] + (1,), dtype=object if S.lifted else float)
            for idx in np.ndindex(coordinates.shape[:-1]):
                out[idx] = self.eval(coordinates[idx])
            return out

    return Lin()


def _exact_linear(coeffs, a, b, d):
    vol = 1
    for k in range(d):
        vol = vol * (b[k] - a[k])
    tot = coeffs[0] * vol
    for k in range(d):
        tot = tot + coeffs[k + 1] * (b[k] * b[k] - a[k] * a[k]) / 2 * vol / (b[k] - a[k])
    return tot


def _setup_function(S, d, lmin, lmax0, boundary, modified, a, b):
    if modified:
        coeffs = [S.real('c%d' % k) for k in range(d + 1)]
        f = _linear_function(S, d, coeffs)
        exact = _exact_linear(coeffs, a, b, d)
        return f, exact, None
    space = HatSpace([Fraction(x) for x in a], [Fraction(x) for x in b], d, lmin, lmax0, boundary)
    alphas = [S.real('al%d' % n) for n in range(len(space.basis))]
    f = _hat_function(S, space, alphas)
    exact = sum(al * space.vol(k) for (k, iv), al in zip(space.basis, alphas))
    return f, exact, space


def _rotated(sa, d, a, b, lmax0):
    """True iff rebalancing rotated a refinement tree: some point of the initial complete tree no longer has its initial level."""
    for k in range(d):
        objs, xs, lv = dw.container_state(sa, k)
        for x, l in zip(xs, lv):
            t = (Fraction(float(x)) - Fraction(a[k])) / (Fraction(b[k]) - Fraction(a[k])) * 2 ** lmax0
            if t.denominator == 1:
                i = int(t)
                want = 0 if i in (0, 2 ** lmax0) else lmax0 - ((i & -i).bit_length() - 1)
                if int(l) != want:
                    return True
    return False


def _check(S, sa, d, f, exact, a, b, lmax0, tag, interp=True):
    if _rotated(sa, d, a, b, lmax0):
        tag = tag + ':after-rebalancing-rotated-an-initial-point'
    res = dw.evaluate_state(sa)
    S.observe(tag + '-integral', list(np.ravel(res)))
    S.prove(S.eq(np.ravel(res)[0], exact), tag + ':combined-integral-exact-on-initial-space')
    if interp:
        axes = []
        for k in range(d):
            n = 2 ** (lmax0 + 1)
            axes.append([float(Fraction(a[k]) + (Fraction(b[k]) - Fraction(a[k])) * Fraction(i, n)) for i in range(n + 1)])
        pts = list(itertools.product(*axes))
        step = max(1, len(pts) // 40)
        pts = pts[::step] + [pts[-1]]
        vals = sa(pts)
        ok = True
        for p, v in zip(pts, vals):
            ok = sym_and(ok, S.eq(v[0], f.eval(p)))
        S.prove(ok, tag + ':combined-interpolant-exact-on-initial-space')


def dw_state(S, npts, lmin, lmax0, version, boundary, modified, box, onesided=False):
    d = len(npts)
    SD, GO, G, EC, RO, RC = dw.mods()
    a = [box[0]] * d
    b = [box[1]] * d
    f, exact, space = _setup_function(S, d, lmin, lmax0, boundary, modified, a, b)
    xs, lv = [], []
    for k in range(d):
        cands = _trees_refining_initial(npts[k], lmax0, onesided) if onesided else _trees_refining_initial(npts[k], lmax0)
        c = S.choice('tree%d' % k, len(cands))
        t, x01 = cands[c]
        lv.append(list(t))
        xs.append([box[0] + (box[1] - box[0]) * x for x in x01])
    sa, op, grid = dw.make_instance(f, a, b, boundary=boundary, version=version, modified=modified)
    dw.prepare_without_evaluation(sa, lmin, lmax0, dw.ZeroErrors())
    dw.install_state(sa, d, xs, lv, lmax0)
    _check(S, sa, d, f, exact, a, b, lmax0, 'state', interp=not modified)


def dw_history(S, d, lmin, lmax0, version, boundary, modified, rebalancing, k, box):
    SD, GO, G, EC, RO, RC = dw.mods()
    a = [box[0]] * d
    b = [box[1]] * d
    f, exact, space = _setup_function(S, d, lmin, lmax0, boundary, modified, a, b)
    sa, op, grid = dw.make_instance(f, a, b, boundary=boundary, version=version, modified=modified, rebalancing=rebalancing)
    dw.prepare_without_evaluation(sa, lmin, lmax0, dw.ZeroErrors())
    sa.refinements = 0
    sa.counter = 1
    _check(S, sa, d, f, exact, a, b, lmax0, 'hist0', interp=not modified)
    for step in range(k):
        dw.scripted_refine(S, sa, d, step, 1)
        _check(S, sa, d, f, exact, a, b, lmax0, 'hist', interp=(not modified and step == k - 1))


def dw_real_modified(S, d, lmin, lmax0, version, max_evals, box):
    """The real driver loop with the real surplus estimator on a linear function, modified basis: every error is 0 in exact
    arithmetic, so every interval is refined in every round (0 >= 0.9*0) and the result must stay exact."""
    SD, GO, G, EC, RO, RC = dw.mods()
    a = [box[0]] * d
    b = [box[1]] * d
    coeffs = [S.real('c%d' % k) for k in range(d + 1)]
    f = _linear_function(S, d, coeffs)
    exact = _exact_linear(coeffs, a, b, d)
    sa, op, grid = dw.make_instance(f, a, b, boundary=False, version=version, modified=True)
    res = sa.performSpatiallyAdaptiv(lmin, lmax0, EC.ErrorCalculatorSingleDimVolumeGuided(), tol=-1.0, max_evaluations=max_evals, print_output=False)
    S.observe('points', [int(x) for x in res[6]])
    S.prove(len(res[6]) >= 2, 'real:at-least-one-refinement-round')
    S.prove(S.eq(np.ravel(res[3])[0], exact), 'real:linear-function-exact-with-modified-basis-after-refinement')


BOUNDS = {
    'quick': {'dimension-wise states (points per dim, lmin, lmax0)': [((6, 5), 1, 2), ((7, 5), 1, 2), ((6, 6), 1, 2), ((10, 9), 1, 3), ((10, 9), 2, 3)],
              'versions': [6, 3], 'boundary/basis': ['boundary', 'no boundary', 'modified basis'], 'histories': 'd=2 (1,2) k<=2 steps, (2,3) k<=1, 1 selected interval (or all) per step',
              'real estimator + modified basis': 'd=2 (1,2), up to 3 rounds'},
    'thorough': {'dimension-wise states (points per dim, lmin, lmax0)': [((6, 5), 1, 2), ((7, 5), 1, 2), ((6, 6), 1, 2), ((7, 6), 1, 2), ((7, 7), 1, 2), ((10, 9), 1, 3), ((10, 10), 1, 3),
                                                                          ((10, 9), 2, 3), ((6, 5, 5), 1, 2)],
                 'versions': [6, 2, 3, 7, 8], 'boundary/basis': ['boundary', 'no boundary', 'modified basis'],
                 'histories': 'd=2: (1,2) k<=3, (1,3) k<=2, (2,3) k<=2; d=3 (1,2) k<=2; 1 selected interval (or all) per step', 'real estimator + modified basis': 'd=2,3 (1,2), up to 3 rounds'},
}

META = {
    'functions': ['SpatiallyAdaptivBase.evaluate_operation/compute_solutions/refine', 'SpatiallyAdaptiveSingleDimensions2.evaluate_operation_area/get_point_coord_for_each_dim/get_subtraction_value/'
                  'refinement_postprocessing/raise_lmax/calculate_surplusses/sum_up_volumes_for_point_completely_vectorized', 'Integration.calculate_operation_dimension_wise',
                  'GlobalTrapezoidalGrid.compute_weights (incl. modified basis)', 'GlobalGrid.set_grid', 'StandardCombi.__call__', 'Interpolation.interpolate_points'],
    'bounds': BOUNDS,
    'assumptions': ['states/histories as in C03 (binary trees refining the initial complete tree; scripted decisions)', 'boxes [0,1]^d and [-3,6]^d',
                    'with the modified basis only integration of linear functions is claimed (its interpolant uses zero boundary values)'],
    'outside': ['non-trapezoidal grids inside the adaptive strategies', 'd >= 4', 'longer histories than stated'],
}

MANIFEST_ENTRY = {
    'text': 'A generic element of the initial sparse-grid space (symbolic hierarchical surpluses), resp. a generic linear/multilinear function (symbolic coefficients), is pushed through the real '
            'evaluation code in every refinement state up to the stated size and along bounded refinement histories; exactness of integral and interpolant is a linear-arithmetic validity query.',
    'note': 'Trusted: z3, LIFT proxies/numpy facade, interpn reference stub.',
}


def jobs(tier):
    from harness import es
    b = BOUNDS[tier]
    q = tier == 'quick'
    js = []
    n = 0
    for (npts, lmin, lmax0) in b['dimension-wise states (points per dim, lmin, lmax0)']:
        for version in b['versions']:
            for (boundary, modified) in ((True, False), (False, False), (False, True)):
                box = (0.0, 1.0) if n % 2 == 0 else (-3.0, 6.0)
                n += 1
                js.append(Job('dwstate[pts=%s,l=%d-%d,v=%d,%s]' % ('x'.join(map(str, npts)), lmin, lmax0, version, 'mod' if modified else ('b' if boundary else 'nb')), dw_state,
                              {'npts': list(npts), 'lmin': lmin, 'lmax0': lmax0, 'version': version, 'boundary': boundary, 'modified': modified, 'box': list(box)},
                              validate=(5 if q else 2)))
    # three dimensions with one deeply refined dimension (lmax raised twice there, the others still at their start level)
    for npts in ([(7, 5, 5)] if q else [(7, 5, 5), (6, 6, 5)]):
        for version in ((6, 7) if q else (6, 7, 8, 3)):
            js.append(Job('dwstate3d[pts=%s,l=1-2,v=%d,b]' % ('x'.join(map(str, npts)), version), dw_state,
                          {'npts': list(npts), 'lmin': 1, 'lmax0': 2, 'version': version, 'boundary': True, 'modified': False, 'box': [0.0, 1.0]},
                          validate=(5 if q else 2), budget_s=(600 if q else 3000)))
    hist = [(2, 1, 2, 2), (2, 2, 3, 1)] if q else [(2, 1, 2, 3), (2, 1, 3, 2), (2, 2, 3, 2), (3, 1, 2, 2)]
    for (d, lmin, lmax0, k) in hist:
        for version in b['versions']:
            for (boundary, modified) in ((True, False), (False, False), (False, True)):
                for reb in ((True,) if q else (True, False)):
                    js.append(Job('dwhist[d=%d,l=%d-%d,v=%d,%s,%s,k=%d]' % (d, lmin, lmax0, version, 'mod' if modified else ('b' if boundary else 'nb'), 'rebal' if reb else 'norebal', k),
                                  dw_history, {'d': d, 'lmin': lmin, 'lmax0': lmax0, 'version': version, 'boundary': boundary, 'modified': modified, 'rebalancing': reb, 'k': k,
                                               'box': [0.0, 1.0]}, validate=(11 if q else 5), budget_s=(600 if q else 3000)))
    for d in ((2,) if q else (2, 3)):
        for version in ((6,) if q else (6, 3)):
            for box in ((0.0, 1.0), (-3.0, 6.0)):
                js.append(Job('dimwise-real[d=%d,v=%d,mod,box=%s]' % (d, version, box), dw_real_modified,
                              {'d': d, 'lmin': 1, 'lmax0': 2, 'version': version, 'max_evals': 12 if d == 2 else 30, 'box': list(box)}, budget_s=(600 if q else 3000)))
    js.extend(es.c04_jobs(tier))
    return js
