"""Entry point of every check: ./vcheck <Cxx> quick|thorough | --replay <file>."""
import importlib
import json
import os
import sys


def main(argv):
    if len(argv) < 2:
        print(__doc__)
        return 2
    pid = argv[0].upper()
    from lift import run
    run.prepare_process()
    mod = importlib.import_module('harness.' + pid.lower())
    if argv[1] == '--replay':
        rec = json.load(open(argv[2] if os.path.isabs(argv[2]) else os.path.join(run.VERIF, argv[2])))
        jobs = {j.name: j for t in ('thorough', 'quick') for j in mod.jobs(t)}
        job = jobs[rec['job']]
        res = run.run_concrete(job, run._parse_values(rec['values']), rec['tables'])
        failing = [l for (l, ok, _) in res['goals'] if not ok]
        print('replay job=%s recorded goal=%s' % (rec['job'], rec['label']))
        print('  exception: %s' % res['exception'])
        print('  failing goals on the real library: %s' % failing)
        if res.get('tb'):
            print(res['tb'])
        bad = bool(failing) or res['exception'] is not None
        print('REPRODUCED' if bad else 'NOT REPRODUCED')
        return 1 if bad else 0
    tier = argv[1]
    assert tier in ('quick', 'thorough')
    os.environ['VERIF_TIER'] = tier
    jobs = mod.jobs(tier)
    only = os.environ.get('VERIF_ONLY')
    if only:
        jobs = [j for j in jobs if any(o in j.name for o in only.split(',,'))]
    return run.main_check(pid, mod.__name__, tier, jobs, mod.META)


if __name__ == '__main__':
    sys.exit(main(sys.argv[1:]))
