"""C20 — regression solves the regularised least-squares problem on every component grid.

K  Regression(data, targets, lambda, matrix) with DEFAULT construction arguments on symbolic data: construction succeeds and every
   feature is scaled onto the default range [0.05, 0.95] (sklearn's MinMaxScaler -> reference stand-in incl. its parameter validation).
A  design matrix: build_A_matrix (uniform) / build_A_matrix_dimension_wise (refinement trees) with SYMBOLIC training points:
   A[s][i] == phi_i(x_s) for the tensor hat basis of the component grid.
C  smoothing matrix: build_C_matrix (uniform level vectors) and build_C_matrix_dimension_wise (symbolic knots / refinement trees)
   == Gram matrix of the basis gradients  sum_k  stiffness_k (x) mass_(other dims); symmetric.
S  the linear system: evaluate_levelvec / calculate_operation_dimension_wise with symbolic data, targets and lambda.
   numpy.linalg.lstsq is a recording stand-in returning arbitrary reals (P3): the system handed to the solver is
   (A^T A / m + lambda M , A^T y / m) with M = identity or the library's own smoothing matrix (plain (A, y) for lambda == 0) and the
   stored surpluses are the solver's output, unmodified.  In the concrete re-runs the real lstsq is used and the residual of the
   normal equations is checked numerically.
O  coefficient optimisation: each of the three variants (standard combination) normalises whatever its solver / error measure
   returns: the new coefficients sum to one (lstsq and mean_squared_error -> arbitrary values, the latter positive).
"""
import itertools
from fractions import Fraction

import numpy as np

from lift import core, lib, mlstubs
from lift.core import sym_and, sym_or, sym_not, is_sym
from lift.run import Job

PROPERTY = 'C20'

MIN_GAP = Fraction(1, 16)


class RecordingLstsq:
    """numpy.linalg.lstsq stand-in (lifted runs): records the system and returns an arbitrary vector (fresh reals)."""

    def __init__(self, S, nonzero_sum=False):
        self.S = S
        self.calls = []
        self.nonzero_sum = nonzero_sum

    def __call__(self, a, b, rcond=None):
        a = np.asarray(a, dtype=object)
        b = np.asarray(b, dtype=object)
        n = a.shape[1]
        x = np.empty(n, dtype=object)
        for i in range(n):
            x[i] = self.S.fresh_real('sol')
        if self.nonzero_sum:
            tot = 0
            for v in x:
                tot = tot + v
            self.S.assume(tot != 0)
        self.calls.append((a, b, x))
        return x, np.array([]), n, np.ones(n)


def _install_lstsq(S, rec):
    from lift import shim
    shim.LSTSQ_HOOK[0] = rec


def _samples(S, m, d, name='x'):
    xs = [[S.real('%s%d_%d' % (name, s, k)) for k in range(d)] for s in range(m)]
    for row in xs:
        for v in row:
            S.assume(v >= 0)
            S.assume(v <= 1)
    return xs


def _arr(S, rows):
    return np.array(rows, dtype=object if S.lifted else float)


def _make(S, d, lam, matrix, m, dimension_wise=False):
    """Regression object with symbolic, already scaled training data (the scaling itself is job K)."""
    from sparseSpACE import GridOperation as GO
    from sparseSpACE.Grid import GlobalTrapezoidalGrid
    reg = GO.Regression.__new__(GO.Regression)
    xs = _samples(S, m, d)
    ys = [S.real('y%d' % s) for s in range(m)]
    reg.data = _arr(S, xs)
    reg.target_values = _arr(S, ys)
    reg.training_data, reg.training_target_values = reg.data, reg.target_values
    reg.validation_data, reg.validation_target_values = reg.data, reg.target_values
    reg.test_data, reg.test_target_values = reg.data, reg.target_values
    reg.regularization = lam
    reg.regularization_opticom = lam
    reg.dim = d
    reg.regularization_matrix = matrix
    if dimension_wise:
        reg.grid = GlobalTrapezoidalGrid(a=np.zeros(d), b=np.ones(d), boundary=False, modified_basis=False)
    else:
        from sparseSpACE.Grid import TrapezoidalGrid
        reg.grid = TrapezoidalGrid(a=np.zeros(d), b=np.ones(d), boundary=False)
    reg.surpluses = {}
    reg.initialized = True
    reg.extrema = None
    reg.reference_solution = None
    reg.debug = False
    reg.scaled = True
    reg.classes = None
    reg.reuse_old_values = False
    reg.dimension_wise = dimension_wise
    reg.print_output = False
    from sparseSpACE.Utils import LogUtility, log_levels, print_levels
    reg.log_util = LogUtility(log_level=log_levels.WARNING, print_level=print_levels.NONE)
    return reg, xs, ys


# ------------------------------------------------------------------ K: construction / scaling
def construct(S, d, m, matrix):
    from sparseSpACE import GridOperation as GO
    xs = [[S.real('x%d_%d' % (s, k)) for k in range(d)] for s in range(m)]
    # every equality pattern of the targets (the constructor builds a set of them): target s is an earlier one or differs from all of them
    ys = []
    for s in range(m):
        y = S.real('y%d' % s)
        alias = S.choice('alias%d' % s, s + 1) if s else 0
        if alias < s:
            S.assume(y == ys[alias])
            y = ys[alias]
        else:
            for o in ys:
                S.assume(y != o)
        ys.append(y)
    for row in xs:
        for v in row:
            S.assume(v >= -8)
            S.assume(v <= 8)
    lam = S.real('lambda')
    S.assume(lam >= 0)
    reg = GO.Regression(_arr(S, xs), _arr(S, ys), lam, matrix)
    data = np.asarray(reg.data, dtype=object)
    S.prove(data.shape == (m, d), 'construct:data-shape-kept')
    ok_range, ok_ends = True, True
    for k in range(d):
        col = [data[s][k] for s in range(m)]
        orig = [xs[s][k] for s in range(m)]
        ok_range = sym_and(ok_range, *[sym_and(v >= 0.05 - 1e-12, v <= 0.95 + 1e-12) for v in col])
        # order preserving affine map: the smallest sample of a non-constant feature lands on 0.05, the largest on 0.95
        for s in range(m):
            is_min = sym_and(*[orig[s] <= o for o in orig])
            is_max = sym_and(*[orig[s] >= o for o in orig])
            nonconst = sym_or(*[orig[s] != o for o in orig]) if m > 1 else False
            ok_ends = sym_and(ok_ends, core.sym_implies(sym_and(is_min, nonconst), S.eq(col[s], 0.05, 1.0, 1e-9)),
                              core.sym_implies(sym_and(is_max, nonconst), S.eq(col[s], 0.95, 1.0, 1e-9)))
    S.prove(ok_range, 'construct:default-construction-scales-every-feature-into-[0.05,0.95]')
    S.prove(ok_ends, 'construct:feature-extremes-map-to-the-range-ends')
    tv = np.asarray(reg.target_values, dtype=object)
    S.prove(sym_and(*[S.eq(tv[s], ys[s]) for s in range(m)]), 'construct:targets-unchanged')


# ------------------------------------------------------------------ reference basis
def _ref_hat(levelvec, ivec, x, lifted):
    v = 1
    for k in range(len(levelvec)):
        t = 1 - abs(2 ** levelvec[k] * x[k] - ivec[k])
        v = v * (core.sym_max(t, 0) if lifted else max(t, 0))
    return v


def _ref_hat_nonuniform(stripes, iv, x, lifted):
    v = 1
    mx = core.sym_max if lifted else max
    mn = core.sym_min if lifted else min
    for k, i in enumerate(iv):
        xs = stripes[k]
        up = 1 - (x[k] - xs[i]) / (xs[i + 1] - xs[i])
        down = 1 - (xs[i] - x[k]) / (xs[i] - xs[i - 1])
        v = v * mx(mn(up, down), 0)
    return v


def _stripes(S, npts, symbolic):
    stripes, levels = [], []
    for d, n in enumerate(npts):
        if symbolic and n == 1:
            stripes.append([0.0, 0.5, 1.0])
            levels.append([0, 1, 0])
        elif symbolic:
            xs, acc = [], 0
            for i in range(n + 1):
                h = S.real('h%d_%d' % (d, i))
                S.assume(h >= MIN_GAP)
                acc = acc + h
                xs.append(acc)
            S.assume(acc == 1)
            stripes.append([0.0] + xs)
            levels.append([0] + [1] * n + [0])
        else:
            lv = lib.tree_levels(S, 'tree%d' % d, n + 2)
            stripes.append([float(c) for c in lib.dyadic_coords(lv, 0.0, 1.0)])
            levels.append(list(lv))
    return stripes, levels


# ------------------------------------------------------------------ A: design matrix
def design(S, levelvec, m):
    d = len(levelvec)
    reg, xs, ys = _make(S, d, 0.0, 'C', m)
    reg.grid.numPoints = 2 ** np.asarray(levelvec, dtype=int) - 1
    A = reg.build_A_matrix(list(levelvec))
    idx = list(itertools.product(*[range(1, 2 ** l) for l in levelvec]))
    S.prove(np.shape(A) == (m, len(idx)), 'design:shape-is-samples-x-basis-functions')
    S.prove(sym_and(*[S.eq(A[s][n], _ref_hat(levelvec, iv, xs[s], S.lifted)) for s in range(m) for n, iv in enumerate(idx)]),
            'design:entries-are-the-basis-values-at-the-training-points')


def designdw(S, npts, m):
    d = len(npts)
    stripes, levels = _stripes(S, npts, False)
    reg, xs, ys = _make(S, d, 0.0, 'C', m, dimension_wise=True)
    A = reg.build_A_matrix_dimension_wise(stripes, levels)
    idx = list(itertools.product(*[range(1, n + 1) for n in npts]))
    S.prove(np.shape(A) == (m, len(idx)), 'designdw:shape-is-samples-x-basis-functions')
    S.prove(sym_and(*[S.eq(A[s][n], _ref_hat_nonuniform(stripes, iv, xs[s], S.lifted)) for s in range(m) for n, iv in enumerate(idx)]),
            'designdw:entries-are-the-nonuniform-basis-values-at-the-training-points')


# ------------------------------------------------------------------ C: smoothing matrix
def _mass(xs, i, j):
    if i == j:
        return (xs[i + 1] - xs[i - 1]) / 3
    if abs(i - j) == 1:
        a, b = min(i, j), max(i, j)
        return (xs[b] - xs[a]) / 6
    return 0


def _stiff(xs, i, j):
    if i == j:
        return 1 / (xs[i] - xs[i - 1]) + 1 / (xs[i + 1] - xs[i])
    if abs(i - j) == 1:
        a, b = min(i, j), max(i, j)
        return -1 / (xs[b] - xs[a])
    return 0


def _gradient_gram(stripes, ia, ib):
    tot = 0
    for k in range(len(stripes)):
        t = _stiff(stripes[k], ia[k], ib[k])
        for n in range(len(stripes)):
            if n != k:
                t = t * _mass(stripes[n], ia[n], ib[n])
        tot = tot + t
    return tot


def smooth(S, levelvec):
    d = len(levelvec)
    reg, xs, ys = _make(S, d, 0.0, 'C', 1)
    reg.grid.numPoints = 2 ** np.asarray(levelvec, dtype=int) - 1
    C = reg.build_C_matrix(list(levelvec))
    stripes = [[Fraction(i, 2 ** l) for i in range(2 ** l + 1)] for l in levelvec]
    idx = list(itertools.product(*[range(1, 2 ** l) for l in levelvec]))
    S.prove(np.shape(C) == (len(idx), len(idx)), 'smooth:shape')
    ok, sym_ok = True, True
    for a, ia in enumerate(idx):
        for b, ib in enumerate(idx):
            ok = ok and S.close(C[a][b], _gradient_gram(stripes, ia, ib), 1e-9)
            sym_ok = sym_ok and S.close(C[a][b], C[b][a], 1e-12)
    S.prove(sym_ok, 'smooth:symmetric')
    S.prove(ok, 'smooth:equals-gram-matrix-of-the-basis-gradients')


def smoothdw(S, npts, symbolic):
    d = len(npts)
    stripes, levels = _stripes(S, npts, symbolic)
    reg, xs, ys = _make(S, d, 0.0, 'C', 1, dimension_wise=True)
    if S.lifted:
        core.CTX().abs_implied = True
    C = reg.build_C_matrix_dimension_wise(stripes, levels)
    idx = list(itertools.product(*[range(1, n + 1) for n in npts]))
    S.prove(np.shape(C) == (len(idx), len(idx)), 'smoothdw:shape')
    for a, ia in enumerate(idx):
        for b, ib in enumerate(idx):
            if b < a:
                continue
            near = all(abs(ia[k] - ib[k]) <= 1 for k in range(d))
            S.prove(S.eq(C[a][b], _gradient_gram(stripes, ia, ib), 1.0, 1e-9),
                    'smoothdw:equals-gram-matrix-of-the-basis-gradients' + ('' if near else '-(basis functions without common support)'))
            if a != b:
                S.prove(S.eq(C[a][b], C[b][a], 1.0, 1e-12), 'smoothdw:symmetric')


# ------------------------------------------------------------------ S: the linear system
def _matmul_ref(A, B):
    n, k, m = len(A), len(B), len(B[0])
    return [[sum(A[i][t] * B[t][j] for t in range(k)) for j in range(m)] for i in range(n)]


def _system_goals(S, tag, A, ys, lam, M, got_left, got_right, m):
    n = len(A[0])
    At = [[A[s][i] for s in range(m)] for i in range(n)]
    AtA = _matmul_ref(At, A)
    ok_l, ok_r = True, True
    for i in range(n):
        for j in range(n):
            want = AtA[i][j] / m + lam * M[i][j]
            ok_l = sym_and(ok_l, S.eq(got_left[i][j], want, 1.0, 1e-9))
        want = sum(At[i][s] * ys[s] for s in range(m)) / m
        ok_r = sym_and(ok_r, S.eq(got_right[i], want, 1.0, 1e-9))
    S.prove(ok_l, tag + ':left-side-is-AtA/m-plus-lambda-M')
    S.prove(ok_r, tag + ':right-side-is-Aty/m')


def system(S, levelvec, matrix, m, regularised):
    from sparseSpACE.ComponentGridInfo import ComponentGridInfo
    d = len(levelvec)
    lam = 0.0
    if regularised:
        lam = S.real('lambda')
        S.assume(lam > 0)
    reg, xs, ys = _make(S, d, lam, matrix, m)
    rec = None
    if S.lifted:
        rec = RecordingLstsq(S)
        _install_lstsq(S, rec)
    cg = ComponentGridInfo(tuple(levelvec), 1)
    alphas = reg.evaluate_levelvec(cg)
    idx = list(itertools.product(*[range(1, 2 ** l) for l in levelvec]))
    n = len(idx)
    A = [[_ref_hat(levelvec, iv, xs[s], S.lifted) for iv in idx] for s in range(m)]
    M = np.identity(n) if matrix == 'I' else reg.build_C_matrix(list(levelvec))
    S.prove(len(alphas) == n and tuple(levelvec) in reg.surpluses, 'system:one-surplus-per-basis-function-stored-for-the-grid')
    if S.lifted:
        S.prove(len(rec.calls) == 1, 'system:exactly-one-solve')
        a, b, x = rec.calls[0]
        S.prove(sym_and(*[alphas[i] == x[i] for i in range(n)]), 'system:surpluses-are-the-solver-output')
        if regularised:
            S.prove(a.shape == (n, n) and b.shape == (n,), 'system:solver-input-shape')
            _system_goals(S, 'system', A, ys, lam, M, a, b, m)
        else:
            S.prove(a.shape == (m, n) and b.shape == (m,), 'system:solver-input-shape')
            S.prove(sym_and(*[S.eq(a[s][i], A[s][i]) for s in range(m) for i in range(n)], *[S.eq(b[s], ys[s]) for s in range(m)]),
                    'system:plain-least-squares-on-the-design-matrix-and-targets')
    else:
        # concrete re-run on the real library: residual of the normal equations
        At = [[A[s][i] for s in range(m)] for i in range(n)]
        AtA = _matmul_ref(At, A)
        res = 0.0
        for i in range(n):
            lhs = sum((AtA[i][j] / m + lam * M[i][j]) * float(alphas[j]) for j in range(n))
            rhs = sum(At[i][s] * ys[s] for s in range(m)) / m
            res = max(res, abs(lhs - rhs))
        scale = max(1.0, max(abs(float(y)) for y in ys))
        S.prove(res <= 1e-7 * scale, 'system:surpluses-are-the-solver-output')


def system_retrain(S, levelvec, matrix, m):
    """The same Regression object solves the same component grid a second time after the training targets and lambda have changed (a second
    train() call with another split / noise / regularisation): the second surpluses solve the SECOND system."""
    from sparseSpACE.ComponentGridInfo import ComponentGridInfo
    d = len(levelvec)
    lam1 = S.real('lambda')
    S.assume(lam1 > 0)
    reg, xs, ys = _make(S, d, lam1, matrix, m)
    rec = None
    if S.lifted:
        rec = RecordingLstsq(S)
        _install_lstsq(S, rec)
    cg = ComponentGridInfo(tuple(levelvec), 1)
    real_lstsq, nsolves = np.linalg.lstsq, [0]
    if not S.lifted:
        def counting(*a, **k):  # concrete runs: the real numpy.linalg.lstsq, counted
            nsolves[0] += 1
            return real_lstsq(*a, **k)
        np.linalg.lstsq = counting
    try:
        reg.evaluate_levelvec(cg)
        ys2 = [S.real('z%d' % s) for s in range(m)]
        lam2 = S.real('lambda2')
        S.assume(lam2 > 0)
        reg.target_values = _arr(S, ys2)
        reg.training_target_values = reg.target_values
        reg.regularization = lam2
        alphas = reg.evaluate_levelvec(cg)
    finally:
        np.linalg.lstsq = real_lstsq
    idx = list(itertools.product(*[range(1, 2 ** l) for l in levelvec]))
    n = len(idx)
    A = [[_ref_hat(levelvec, iv, xs[s], S.lifted) for iv in idx] for s in range(m)]
    M = np.identity(n) if matrix == 'I' else reg.build_C_matrix(list(levelvec))
    if S.lifted:
        S.prove(len(rec.calls) == 2, 'retrain:one-solve-per-training')
        a, b, x = rec.calls[-1]
        S.prove(sym_and(*[alphas[i] == x[i] for i in range(n)]), 'retrain:surpluses-are-the-output-of-the-second-solve')
        _system_goals(S, 'retrain', A, ys2, lam2, M, a, b, m)
    else:
        At = [[A[s][i] for s in range(m)] for i in range(n)]
        AtA = _matmul_ref(At, A)
        res = 0.0
        for i in range(n):
            lhs = sum((AtA[i][j] / m + lam2 * M[i][j]) * float(alphas[j]) for j in range(n))
            rhs = sum(At[i][s] * ys2[s] for s in range(m)) / m
            res = max(res, abs(lhs - rhs))
        scale = max(1.0, max(abs(float(y)) for y in ys2))
        S.prove(nsolves[0] == 2, 'retrain:one-solve-per-training')
        S.prove(res <= 1e-7 * scale, 'retrain:surpluses-are-the-output-of-the-second-solve')


def systemdw(S, npts, matrix, m, regularised):
    from sparseSpACE.ComponentGridInfo import ComponentGridInfo
    from sparseSpACE.RefinementContainer import RefinementContainer
    d = len(npts)
    lam = 0.0
    if regularised:
        lam = S.real('lambda')
        S.assume(lam > 0)
    stripes, levels = _stripes(S, npts, False)
    reg, xs, ys = _make(S, d, lam, matrix, m, dimension_wise=True)
    rec = None
    if S.lifted:
        rec = RecordingLstsq(S)
        _install_lstsq(S, rec)
    idx = list(itertools.product(*[range(1, n + 1) for n in npts]))
    n = len(idx)
    if regularised:
        alphas = reg.solve_regression_dimension_wise_smooth(stripes, levels, None)
    else:
        alphas = reg.solve_regression_dimension_wise(stripes, levels, None)
    A = [[_ref_hat_nonuniform(stripes, iv, xs[s], S.lifted) for iv in idx] for s in range(m)]
    M = np.identity(n) if matrix == 'I' else reg.build_C_matrix_dimension_wise(stripes, levels)
    S.prove(len(alphas) == n, 'systemdw:one-surplus-per-basis-function')
    if S.lifted:
        S.prove(len(rec.calls) == 1, 'systemdw:exactly-one-solve')
        a, b, x = rec.calls[0]
        S.prove(sym_and(*[alphas[i] == x[i] for i in range(n)]), 'systemdw:surpluses-are-the-solver-output')
        if regularised:
            S.prove(a.shape == (n, n) and b.shape == (n,), 'systemdw:solver-input-shape')
            _system_goals(S, 'systemdw', A, ys, lam, M, a, b, m)
        else:
            S.prove(a.shape == (m, n) and b.shape == (m,), 'systemdw:solver-input-shape')
            S.prove(sym_and(*[S.eq(a[s][i], A[s][i]) for s in range(m) for i in range(n)], *[S.eq(b[s], ys[s]) for s in range(m)]),
                    'systemdw:plain-least-squares-on-the-design-matrix-and-targets')
    else:
        At = [[A[s][i] for s in range(m)] for i in range(n)]
        AtA = _matmul_ref(At, A)
        res = 0.0
        for i in range(n):
            lhs = sum((AtA[i][j] / m + lam * M[i][j]) * float(alphas[j]) for j in range(n))
            rhs = sum(At[i][s] * ys[s] for s in range(m)) / m
            res = max(res, abs(lhs - rhs))
        scale = max(1.0, max(abs(float(y)) for y in ys))
        S.prove(res <= 1e-7 * scale, 'systemdw:surpluses-are-the-solver-output')


# ------------------------------------------------------------------ O: coefficient optimisation
def opticom(S, d, lmin, lmax, option, lam, m, abstract_error=False):
    """Standard combination scheme with arbitrary stored surpluses; each optimisation variant must return coefficients summing to one."""
    from sparseSpACE.StandardCombi import StandardCombi
    reg, xs, ys = _make(S, d, lam, 'C', m)
    combi = StandardCombi(np.zeros(d), np.ones(d), operation=reg, print_output=False)
    combi.set_combi_parameters(lmin, lmax)
    for cg in combi.scheme:
        npts = 1
        for l in cg.levelvector:
            npts *= 2 ** int(l) - 1
        reg.surpluses[tuple(cg.levelvector)] = _arr(S, [S.real('s%s_%d' % (''.join(map(str, cg.levelvector)), i)) for i in range(npts)])
    reg.grid.numPoints = 2 ** np.asarray(combi.scheme[-1].levelvector, dtype=int) - 1  # as the last evaluate_levelvec of training leaves it
    DEGENERATE = 'opticom:coefficients-sum-to-one-(a component grid with zero validation error: division by zero)'
    if S.lifted:
        # the solver stand-in returns an arbitrary vector whose entries do not sum to zero (the normalisation is undefined otherwise);
        # the validation error of option 3 is the real formula, so an exact fit (error 0) is a feasible path
        rec = RecordingLstsq(S, nonzero_sum=True)
        _install_lstsq(S, rec)
        if abstract_error:
            # larger schemes: the validation error of option 3 is an arbitrary positive number (P3); the exact-formula jobs cover error == 0
            def arbitrary_positive_error(y_true, y_pred):
                e = S.fresh_real('mse')
                S.assume(e > 0)
                return e
            mlstubs.MSE_HOOK[0] = arbitrary_positive_error
    try:
        reg.optimize_coefficients(combi, option)
    except ZeroDivisionError:
        if not S.lifted:
            raise
        if abstract_error:
            S.assume(False)  # abstract errors whose weighted reciprocals sum to zero: normalisation undefined, outside
        # numpy float semantics of the real code: x/0 -> inf/nan, no exception; the coefficients then do not sum to one
        S.prove(False, DEGENERATE)
        return
    coeffs = [cg.coefficient for cg in combi.scheme]
    tot = 0
    for c in coeffs:
        tot = tot + c
    S.observe('ngrids', len(coeffs))
    if not S.lifted and not np.isfinite(float(tot)):
        if option == 3 and not abstract_error:
            S.prove(False, DEGENERATE)
            return
        S.assume(False)  # options 1/2: the real solver returned coefficients with zero sum (degenerate data such as all-zero samples): outside
    S.prove(S.eq(tot, 1, 1.0, 1e-9), 'opticom:coefficients-sum-to-one')


BOUNDS = {
    'quick': {'construct': 'd<=2, 2-3 samples, values in [-8,8], matrix C/I', 'design': 'levels (1,),(2,),(3,),(2,1),(2,2) with 1-2 symbolic samples; trees with <=3 / 2x1 interior points',
              'smooth': 'level vectors (1,),(2,),(3,),(1,1),(2,2),(2,1),(1,2),(3,1); symbolic knots <=(3,) (1-D); trees (3,),(2,1),(2,2)',
              'system': 'levels (2,),(2,1),(1,1),(2,2) x matrix C/I x lambda symbolic>0 or 0, 2 symbolic samples; trees (2,),(3,),(2,1)', 'opticom': 'd=1 (1,2),(1,3); d=2 (1,2); options 1,2,3; lambda 0 / 0.1; 2 samples'},
    'thorough': {'construct': 'd<=3, 2-4 samples', 'design': 'levels up to (3,2),(2,2,1), 1-3 samples; trees (5,),(3,2)',
                 'smooth': 'level vectors up to (4,),(3,3),(3,2),(2,2,1),(1,2,1); symbolic knots <=(4,) (1-D); trees (5,),(2,1),(2,2),(3,3)',
                 'system': 'levels up to (3,),(3,2) and 3 samples; trees (5,),(3,2)', 'opticom': 'd=1 (1,4); d=2 (1,3),(2,3); d=3 (1,2)'},
}

META = {
    'functions': ['Regression.__init__', 'scale_data', 'DataSet.scale_range', 'build_A_matrix', 'build_A_matrix_dimension_wise', 'build_C_matrix', 'build_C_matrix_dimension_wise',
                  'build_left_matrix', 'build_right_vector', 'solve_regression', 'solve_regression_smooth', 'solve_regression_dimension_wise', 'solve_regression_dimension_wise_smooth',
                  'evaluate_levelvec', 'optimize_coefficients', 'optimize_coefficients_linear_system', 'build_matrix_opticom', 'compute_regularization_term_opticom', 'sum_C_matrix_with_alphas',
                  'optimize_coefficients_minimize_whole_error', 'optimize_coefficients_error_per_grid', 'MachineLearning.interpolate_points_component_grid',
                  'hat_function_in_support_completely_vectorized', 'hat_function_non_symmetric_completely_vectorized'],
    'bounds': BOUNDS,
    'assumptions': ['sklearn MinMaxScaler -> reference stand-in with the documented formula and parameter validation (validated against sklearn)',
                    'numpy.linalg.lstsq -> recording stand-in returning arbitrary reals: what is decided is the system handed to the solver and that its output is stored unmodified; '
                    'the concrete re-runs use the real lstsq and check the residual of the normal equations',
                    'sklearn.metrics.mean_squared_error -> reference formula (opticom option 3)', 'training data already scaled into the unit cube (scaling itself: job K)',
                    'symbolic knot gaps >= 1/16; floats are exact rationals in the lifted run'],
    'outside': ['train / train_spatially_adaptive as a whole (sklearn train_test_split, random noise)', 'spatially adaptive optimisation variants (they run through the adaptive driver)',
                'positive semi-definiteness is implied by the entry-wise equality with a Gram matrix and not proved separately', 'test / plotting'],
}

MANIFEST_ENTRY = {
    'text': 'Regression kernels on symbolic data: default construction and scaling, design matrices against the hat basis, smoothing matrices against the exact gradient Gram matrix '
            '(uniform level vectors, symbolic knots, refinement trees), the linear system handed to the solver against A^T A/m + lambda M and A^T y/m, and normalisation of the optimised coefficients.',
    'note': 'Trusted: z3, LIFT proxies/numpy facade, stand-ins for sklearn scaler / lstsq / mean_squared_error. Known findings: smoothing matrices (see known_findings.json).',
}


def jobs(tier):
    q = tier == 'quick'
    js = []
    ml = mlstubs.ml_shims()
    kw = dict(validate=(5 if q else 2), timeout_ms=30000, budget_s=(600 if q else 3000), extra_shims=ml)
    for d, m in ([(1, 2), (2, 2), (1, 3)] if q else [(1, 2), (2, 2), (1, 3), (2, 3), (3, 2), (1, 4)]):
        for mat in ('C', 'I'):
            js.append(Job('construct[d=%d,m=%d,%s]' % (d, m, mat), construct, {'d': d, 'm': m, 'matrix': mat}, hash_mode='normal_form', **kw))
    for lv, m in ([((1,), 1), ((2,), 2), ((3,), 1), ((2, 1), 1), ((2, 2), 1)] if q else [((1,), 1), ((2,), 2), ((3,), 2), ((4,), 1), ((2, 1), 2), ((2, 2), 1), ((3, 2), 1), ((2, 2, 1), 1)]):
        js.append(Job('design[l=%s,m=%d]' % ('x'.join(map(str, lv)), m), design, {'levelvec': list(lv), 'm': m}, **kw))
    for npts, m in ([((2,), 1), ((3,), 1), ((2, 1), 1)] if q else [((2,), 2), ((3,), 2), ((5,), 1), ((2, 1), 1), ((3, 2), 1)]):
        js.append(Job('designdw[n=%s,m=%d]' % ('x'.join(map(str, npts)), m), designdw, {'npts': list(npts), 'm': m}, **kw))
    for lv in ([(1,), (2,), (3,), (1, 1), (2, 2), (2, 1), (1, 2), (3, 1)] if q else [(1,), (2,), (3,), (4,), (1, 1), (2, 2), (3, 3), (2, 1), (1, 2), (3, 1), (3, 2), (2, 2, 1), (1, 2, 1), (1, 1, 1), (2, 2, 2)]):
        js.append(Job('smooth[l=%s,%s]' % ('x'.join(map(str, lv)), 'isotropic' if len(set(lv)) == 1 else 'anisotropic'), smooth, {'levelvec': list(lv)}, **kw))
    # two and more dimensions only on refinement trees: the d >= 2 matrix is a known finding and refuting rational identities entry by entry on
    # symbolic knots costs minutes of nonlinear solving without adding information
    for npts, symb in ([((1,), True), ((2,), True), ((3,), True), ((3,), False), ((2, 1), False), ((2, 2), False)] if q else
                       [((1,), True), ((2,), True), ((3,), True), ((4,), True), ((3,), False), ((5,), False), ((2, 1), False), ((2, 2), False), ((3, 3), False)]):
        js.append(Job('smoothdw[n=%s,%s,d=%d]' % ('x'.join(map(str, npts)), 'symgeom' if symb else 'trees', len(npts)), smoothdw, {'npts': list(npts), 'symbolic': symb}, **kw))
    for lv, m in ([((2,), 2), ((2, 1), 2), ((1, 1), 2), ((2, 2), 2)] if q else [((2,), 2), ((3,), 3), ((2, 1), 2), ((1, 1), 2), ((2, 2), 2), ((3, 2), 2)]):
        for mat in ('C', 'I'):
            for reg in (True, False):
                if not reg and mat == 'I':
                    continue
                js.append(Job('system[l=%s,%s,m=%d,%s]' % ('x'.join(map(str, lv)), mat, m, 'lambda>0' if reg else 'lambda=0'), system,
                              {'levelvec': list(lv), 'matrix': mat, 'm': m, 'regularised': reg}, **kw))
    for lv, m in ([((2,), 2), ((2, 1), 2)] if q else [((2,), 2), ((3,), 2), ((2, 1), 2), ((2, 2), 2)]):
        for mat in ('C', 'I'):
            js.append(Job('system-retrain[l=%s,%s,m=%d]' % ('x'.join(map(str, lv)), mat, m), system_retrain, {'levelvec': list(lv), 'matrix': mat, 'm': m}, **kw))
    for npts, m in ([((2,), 2), ((3,), 2), ((2, 1), 2)] if q else [((2,), 2), ((3,), 3), ((5,), 2), ((2, 1), 2), ((3, 2), 2)]):
        for mat in ('C', 'I'):
            for reg in (True, False):
                if not reg and mat == 'I':
                    continue
                js.append(Job('systemdw[n=%s,%s,m=%d,%s]' % ('x'.join(map(str, npts)), mat, m, 'lambda>0' if reg else 'lambda=0'), systemdw,
                              {'npts': list(npts), 'matrix': mat, 'm': m, 'regularised': reg}, **kw))
    for d, lmin, lmax in ([(1, 1, 2), (1, 1, 3), (2, 1, 2)] if q else [(1, 1, 2), (1, 1, 3), (1, 1, 4), (2, 1, 2), (2, 1, 3), (2, 2, 3), (3, 1, 2)]):
        for option in (1, 2, 3):
            for lam in (0.0, 0.1):
                if option != 1 and lam != 0.0:
                    continue
                ab = option == 3 and d > 1
                js.append(Job('opticom[d=%d,l=%d-%d,option=%d,lambda=%s%s]' % (d, lmin, lmax, option, lam, ',abstract-error' if ab else ''), opticom,
                              {'d': d, 'lmin': lmin, 'lmax': lmax, 'option': option, 'lam': lam, 'm': 2, 'abstract_error': ab}, **kw))
    return js
