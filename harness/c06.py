"""C06 — refinement structures of the dimension-wise strategy stay well formed.

P2 (one step from an arbitrary valid state): per dimension a refinement tree chosen by the solver (all binary trees with the
given number of points), symbolic ordered end points, symbolic benefits >= 0, symbolic margin in [0,1], symbolic rebalancing
safety factor >= 0; lmax / coarsening levels / adaptive scheme produced by the real update_coarsening_values / raise_lmax.
The real SpatiallyAdaptivBase.refine() (selection loop, RefinementContainer.refine/prepare_remove/apply_remove/sorting,
RefinementObjectSingleDimension.refine, refinement_postprocessing: rebalance, update_coarsening_values, raise_lmax) runs once.
Goals: tiling, level agreement, end levels 0, binary-tree property (also after rebalancing), coarsening = lmax - max level >= 0,
lmax >= deepest level, exactly the intervals with benefit >= margin*max-benefit were split at a point strictly inside.
INIT: the state produced by the real initialize_refinement satisfies the invariant.
"""
import numpy as np

from lift import core, lib
from lift.core import sym_and, sym_or, sym_not, sym_implies, is_sym
from lift.run import Job
from harness import dw

PROPERTY = 'C06'


def step(S, npts, rebalancing, trees=None, sym_coords=True, lmin=1, lmax0=2, version=6):
    d = len(npts)
    SD, GO, G, EC, RO, RC = dw.mods()
    a = [0.0] * d
    b = [1.0] * d
    f = lib.make_function(S, 'F', d, 1)
    margin = S.real('margin')
    S.assume(margin >= 0)  # margin = 0 is legitimate: every interval reaches 0 * max-benefit and is split
    S.assume(margin <= 1)
    safety = S.real('safety')
    S.assume(safety >= 0)
    xs, lv = [], []
    for k in range(d):
        if trees is not None:
            lv.append(list(lib.all_trees(npts[k])[trees[k]]))
        else:
            lv.append(lib.tree_levels(S, 'tree%d' % k, npts[k]))
        if sym_coords:
            x = [S.real('x%d_%d' % (k, i)) for i in range(npts[k])]
            for i in range(npts[k] - 1):
                S.assume(x[i] < x[i + 1])
            a[k], b[k] = x[0], x[-1]
        else:
            x = lib.dyadic_coords(lv[k], 0.0, 1.0)
        xs.append(x)
    sa, op, grid = dw.make_instance(f, a, b, boundary=True, version=version, rebalancing=rebalancing, margin=margin, safety=safety)
    dw.prepare_without_evaluation(sa, lmin, lmax0, EC.ErrorCalculatorSingleDimVolumeGuided())
    dw.install_state(sa, d, xs, lv, lmax0)
    dw.structure_goals(S, sa, d, 'pre')  # the installed state satisfies the invariant (sanity of the harness itself)
    # arbitrary benefits
    ben = {}
    for k in range(d):
        for i, o in enumerate(sa.refinement.get_refinement_container_for_dim(k).get_objects()):
            v = S.real('ben%d_%d' % (k, i))
            S.assume(v >= 0)
            o.benefit = v
            o.error = v
            ben[(k, i)] = v
    pre = {k: dw.container_state(sa, k) for k in range(d)}
    pre_lmax = list(sa.lmax)
    sa.benefit_max = sa.refinement.get_max_benefit()
    S.prove(sym_and(*[sa.benefit_max >= v for v in ben.values()]), 'step:benefit_max-is-an-upper-bound')
    S.prove(sym_or(sa.benefit_max == 0, *[sa.benefit_max == v for v in ben.values()]), 'step:benefit_max-is-attained')
    sa.refinements = 0
    sa.counter = 1
    sa.refine()
    dw.structure_goals(S, sa, d, 'post')
    # exactly the selected intervals were split, at an interior point
    for k in range(d):
        objs0, xs0, lv0 = pre[k]
        objs1, xs1, lv1 = dw.container_state(sa, k)
        j = 0
        ok = True
        for i in range(len(objs0)):
            selected = ben[(k, i)] >= margin * sa.benefit_max
            if S.lifted and is_sym(selected):
                selected = bool(selected)  # already decided on this path: implied, no new fork
            if selected:
                if j + 2 >= len(xs1):
                    ok = False
                    break
                ok = sym_and(ok, xs1[j] == xs0[i], xs1[j + 2] == xs0[i + 1], xs1[j] < xs1[j + 1], xs1[j + 1] < xs1[j + 2],
                             xs1[j + 1] * 2 == xs0[i] + xs0[i + 1])
                j += 2
            else:
                if j + 1 >= len(xs1):
                    ok = False
                    break
                ok = sym_and(ok, xs1[j] == xs0[i], xs1[j + 1] == xs0[i + 1])
                j += 1
        S.prove(sym_and(ok, j == len(xs1) - 1), 'step:exactly-the-intervals-reaching-margin*max-benefit-are-split-at-the-midpoint')
        S.prove(sa.lmax[k] >= pre_lmax[k], 'step:lmax-never-decreases')
        if not rebalancing:
            # without rebalancing the levels of old points are unchanged and a new point gets max(parent levels)+1
            old_levels = {}
            for x, l in zip(xs0, lv0):
                old_levels[_key(x)] = l
            okl = True
            for idx, (x, l) in enumerate(zip(xs1, lv1)):
                kx = _key(x)
                if kx in old_levels:
                    okl = okl and (old_levels[kx] == l)
                else:
                    okl = okl and (l == max(lv1[idx - 1], lv1[idx + 1]) + 1)
            S.prove(okl, 'step:levels-of-old-points-unchanged-new-point-one-deeper')
    S.observe('points', [len(dw.container_state(sa, k)[1]) for k in range(d)])
    S.observe('lmax', [int(x) for x in sa.lmax])
    # scheme is consistent with lmax: all level vectors within [lmin, lmax_d]
    S.prove(all(all(lmin <= int(cg.levelvector[k]) <= sa.lmax[k] for k in range(d)) for cg in sa.scheme), 'step:scheme-levels-within-lmin-lmax')
    S.prove(sum(cg.coefficient for cg in sa.scheme) == 1, 'step:scheme-coefficients-sum-to-one')


def step_scripted(S, n0, rebalancing, max_sel, tree_slice, lmin=1, lmax0=2):
    """Larger trees in dimension 0 (all binary trees with n0 points, dyadic coordinates), dimension 1 minimal; the solver picks the set
    of intervals to split (benefit 1, others 0, at most max_sel or all) instead of symbolic benefits, which keeps the path count
    linear in the number of selections.  Same structural goals as `step`."""
    d = 2
    SD, GO, G, EC, RO, RC = dw.mods()
    f = lib.make_function(S, 'F', d, 1)
    trees = lib.all_trees(n0)
    lo, hi = tree_slice
    trees = trees[lo:hi]
    t0 = list(trees[S.choice('tree0', len(trees))])
    xs = [lib.dyadic_coords(t0, 0.0, 1.0), [0.0, 0.5, 1.0]]
    lv = [t0, [0, 1, 0]]
    sa, op, grid = dw.make_instance(f, [0.0, 0.0], [1.0, 1.0], boundary=True, rebalancing=rebalancing)
    dw.prepare_without_evaluation(sa, lmin, lmax0, EC.ErrorCalculatorSingleDimVolumeGuided())
    dw.install_state(sa, d, xs, lv, lmax0)
    pre = {k: dw.container_state(sa, k) for k in range(d)}
    sa.refinements = 0
    sa.counter = 1
    # selections among the intervals of dimension 0 only
    objs0 = sa.refinement.get_refinement_container_for_dim(0).get_objects()
    subs = dw.subsets_upto(len(objs0), max_sel)
    sel = set(subs[S.choice('sel', len(subs))])
    for k, i, o in dw.all_objects(sa, d):
        o.benefit = 1.0 if (k == 0 and i in sel) else 0.0
        o.error = o.benefit
    sa.benefit_max = sa.refinement.get_max_benefit()
    sa.refine()
    dw.structure_goals(S, sa, d, 'post')
    objs1, xs1, lv1 = dw.container_state(sa, 0)
    want = sorted(set(pre[0][1]) | set((pre[0][1][i] + pre[0][1][i + 1]) / 2 for i in sel))
    S.prove([float(x) for x in xs1] == [float(x) for x in want], 'step:exactly-the-selected-intervals-are-split-at-the-midpoint')
    S.observe('lmax', [int(x) for x in sa.lmax])


def postprocess(S, n0, rebalancing, lag, lmin=1, lmax0=2):
    """refinement_postprocessing as a unit: from any valid tree whose deepest level exceeds the current maximum level by `lag`
    (the state right after the splits of a step, before lmax is raised) it must re-establish lmax >= deepest level and
    coarsening = lmax - highest end-point level."""
    d = 2
    SD, GO, G, EC, RO, RC = dw.mods()
    f = lib.make_function(S, 'F', d, 1)
    trees = [t for t in lib.all_trees(n0) if max(t) - lag >= lmax0]
    if not trees:
        S.assume(False)
    t0 = list(trees[S.choice('tree0', len(trees))])
    xs = [lib.dyadic_coords(t0, 0.0, 1.0), [0.0, 0.25, 0.5, 0.75, 1.0]]
    lv = [t0, [0, 2, 1, 2, 0]]
    sa, op, grid = dw.make_instance(f, [0.0, 0.0], [1.0, 1.0], boundary=True, rebalancing=rebalancing)
    dw.prepare_without_evaluation(sa, lmin, lmax0, EC.ErrorCalculatorSingleDimVolumeGuided())
    dw.install_state(sa, d, xs, lv, lmax0, lag={0: lag})
    S.observe('lmax_before', [int(x) for x in sa.lmax])
    sa.refinement_postprocessing()
    dw.structure_goals(S, sa, d, 'postprocess')
    S.observe('lmax_after', [int(x) for x in sa.lmax])
    S.prove(all(all(lmin <= int(cg.levelvector[k]) <= sa.lmax[k] for k in range(d)) for cg in sa.scheme), 'postprocess:scheme-levels-within-lmin-lmax')


def _key(x):
    if is_sym(x):
        return ('s', frozenset(x.terms.items()))
    return ('c', float(x))


def init(S, d, lmin, lmax0, boundary):
    SD, GO, G, EC, RO, RC = dw.mods()
    a = [S.real('a%d' % k) for k in range(d)]
    h = [S.real('h%d' % k) for k in range(d)]
    for k in range(d):
        S.assume(h[k] > 0)
    b = [a[k] + h[k] for k in range(d)]
    f = lib.make_function(S, 'F', d, 1)
    sa, op, grid = dw.make_instance(f, a, b, boundary=boundary)
    dw.prepare_without_evaluation(sa, lmin, lmax0, EC.ErrorCalculatorSingleDimVolumeGuided())
    dw.structure_goals(S, sa, d, 'init')
    for k in range(d):
        objs, xs, lv = dw.container_state(sa, k)
        S.prove(len(xs) == 2 ** lmax0 + 1, 'init:complete-tree-point-count')
        S.prove(sym_and(*[xs[i] == a[k] + h[k] * i / 2 ** lmax0 for i in range(len(xs))]), 'init:equidistant-points')
        S.prove(sorted(lv[1:-1]) == sorted(sum([[l] * 2 ** (l - 1) for l in range(1, lmax0 + 1)], [])), 'init:complete-tree-levels')
    S.observe('n', [len(dw.container_state(sa, k)[1]) for k in range(d)])


BOUNDS = {
    'quick': {'step: points per dimension': [(3, 3), (4, 3), (4, 4), (5, 3)], 'rebalancing': [True, False], 'coordinates': 'symbolic ordered reals', 'scripted selections': 'all trees with 7 and 8 points in dimension 0, <= 3 selected intervals (or all), dyadic coordinates',
              'postprocessing unit': 'all trees with 5..7 points whose deepest level exceeds lmax by 1, 2 or 3', 'init: (d, lmin, lmax0)': [(2, 1, 2), (2, 1, 3), (3, 1, 2), (2, 2, 3)]},
    'thorough': {'step: points per dimension': [(3, 3), (4, 3), (5, 3), (6, 3), (4, 4), (5, 4), (3, 3, 3)], 'rebalancing': [True, False],
                 'coordinates': 'symbolic ordered reals', 'init: (d, lmin, lmax0)': [(2, 1, 2), (2, 1, 3), (2, 1, 4), (3, 1, 2), (3, 1, 3), (2, 2, 3), (4, 1, 2)]},
}

META = {
    'functions': ['SpatiallyAdaptivBase.refine', 'SpatiallyAdaptiveSingleDimensions2.do_refinement', 'MetaRefinementContainer.refine/get_next_object_for_refinement/get_max_benefit/apply_remove/clear_new_objects',
                  'RefinementContainer.refine/prepare_remove/apply_remove/add/get_next_object_for_refinement/reinit_new_objects/update_values',
                  'RefinementObjectSingleDimension.refine/update', 'SpatiallyAdaptiveSingleDimensions2.refinement_postprocessing/rebalance/rebalance_interval/update_coarsening_values/raise_lmax',
                  'CombiScheme.update_adaptive_combi/getCombiScheme', 'SpatiallyAdaptiveSingleDimensions2.initialize_refinement/_initialize_points/_initialize_levels',
                  'GlobalGrid.get_mid_point'],
    'bounds': BOUNDS,
    'assumptions': ['pre-state invariant (stronger than the sentence in the property, and the post-state is checked against the stronger form): binary refinement tree per dimension '
                    '(two points of equal level are separated by a point of lower level; the higher of the nearest lower-level neighbours is exactly one level up), '
                    'end levels 0, coarsening = lmax - max level, lmax = max(lmax0, deepest level), adaptive scheme produced by raise_lmax from the initial scheme',
                    'benefits arbitrary >= 0 (ties and zeros included), margin in [0,1], safety factor >= 0',
                    'lmin = 1, lmax0 = 2 for the step harness; unweighted midpoints (GlobalTrapezoidalGrid.get_mid_point)'],
    'outside': ['more points per dimension / more dimensions than stated', 'Chebyshev points, force_balanced_refinement_tree', 'weighted midpoints (C15)'],
}

MANIFEST_ENTRY = {
    'text': 'One refinement step of the real driver from an arbitrary valid state: tree shapes are chosen by the solver (exhaustively), end points, benefits, margin and '
            'safety factor are solver variables; invariant preservation and the selection rule are decided for all of them at once. Together with the INIT harness this is an '
            'induction over refinement histories of any length that stay within the stated container sizes.',
    'note': 'Trusted: z3, LIFT proxies/numpy facade. The invariant used is stated in evidence.assumptions; it was strengthened over the literal sentence because the literal one '
            'admits states (levels 0,1,2,1,0) that no sequence of splits and rotations reaches and on which rebalance_interval trips its own assert.',
}


def jobs(tier):
    b = BOUNDS[tier]
    js = []
    import itertools
    for npts in b['step: points per dimension']:
        combos = list(itertools.product(*[range(len(lib.all_trees(n))) for n in npts]))
        for reb in b['rebalancing']:
            for trees in combos:
                js.append(Job('step[pts=%s,%s,trees=%s]' % ('x'.join(map(str, npts)), 'rebal' if reb else 'norebal', '-'.join(map(str, trees))), step,
                              {'npts': list(npts), 'rebalancing': reb, 'trees': list(trees)}, validate=(9 if tier == 'quick' else 4), timeout_ms=30000,
                              budget_s=(600 if tier == 'quick' else 3000)))
    for n0 in ((7, 8) if tier == 'quick' else (7, 8, 9, 10)):
        ntrees = len(lib.all_trees(n0))
        chunk = max(1, ntrees // (8 if tier == 'quick' else 16))
        for reb in (True, False):
            if not reb and n0 > 8:
                continue
            for lo in range(0, ntrees, chunk):
                js.append(Job('step-scripted[n0=%d,%s,trees=%d-%d]' % (n0, 'rebal' if reb else 'norebal', lo, min(ntrees, lo + chunk)), step_scripted,
                              {'n0': n0, 'rebalancing': reb, 'max_sel': 3 if n0 <= 9 else 2, 'tree_slice': [lo, lo + chunk]},
                              validate=(41 if tier == 'quick' else 17), budget_s=(600 if tier == 'quick' else 3000)))
    for n0 in ((5, 6, 7) if tier == 'quick' else (5, 6, 7, 8, 9)):
        for reb in (True, False):
            for lag in (1, 2, 3):
                if not any(max(t) - lag >= 2 for t in lib.all_trees(n0)):
                    continue
                js.append(Job('postprocess[n0=%d,%s,lag=%d]' % (n0, 'rebal' if reb else 'norebal', lag), postprocess,
                              {'n0': n0, 'rebalancing': reb, 'lag': lag}, validate=(11 if tier == 'quick' else 5), budget_s=(600 if tier == 'quick' else 3000)))
    for (d, lmin, lmax0) in b['init: (d, lmin, lmax0)']:
        for boundary in (True, False):
            js.append(Job('init[d=%d,lmin=%d,lmax=%d,%s]' % (d, lmin, lmax0, 'b' if boundary else 'nb'), init,
                          {'d': d, 'lmin': lmin, 'lmax0': lmax0, 'boundary': boundary}))
    return js
