"""C09 — global adaptive 1-D quadrature rules are exact on every refinement-tree grid.

T  GlobalTrapezoidalGrid (set_grid -> compute_weights -> scalar-product integrator): symbolic sorted points
   (arbitrary positions = every dyadic or weighted-midpoint tree), uninterpreted integrand:
   rule == exact integral of the piecewise-linear interpolant (zero boundary values with boundary off, linear
   extrapolation with the modified basis), weights >= 0 (unmodified), moments 0 and 1 exact, no dependence on levels.
S  GlobalSimpsonGrid on every dyadic tree with <= N points on a symbolic interval [a, a+h]: moments 0,1 exact on
   every tree, degree 2 when the number of points is odd (what the code itself asserts), degree 3 on complete trees.
"""
from fractions import Fraction

from lift import core, lib
from lift.core import sym_and, is_sym
from lift.run import Job

PROPERTY = 'C09'


def _grid_mod():
    from sparseSpACE import Grid
    return Grid


def _pwl_integral(xs, fs):
    tot = 0
    for i in range(len(xs) - 1):
        tot = tot + (xs[i + 1] - xs[i]) * (fs[i] + fs[i + 1]) / 2
    return tot


def trap(S, n, boundary, modified, out_len=1, prior=0):
    xs = lib.sorted_reals(S, 'x', n)
    a, b = xs[0], xs[-1]
    levels = [S.int('lev%d' % i) for i in range(n)]  # unconstrained: the rule must not depend on them
    if modified and n == 3:
        # reachable trees with the modified basis: the single inner point is the midpoint (DESIGN C09)
        S.assume(xs[1] * 2 == a + b)
    G = _grid_mod()
    grid = G.GlobalTrapezoidalGrid(a=[a], b=[b], boundary=boundary, modified_basis=modified)
    if prior:
        # the same grid object carried another point set before (the adaptive strategies call set_grid for every component grid):
        # `prior` other symbolic points between the same end points, integrated once
        ys = [a] + lib.sorted_reals(S, 'y', prior) + [b]
        S.assume(ys[0] < ys[1])
        S.assume(ys[-2] < ys[-1])
        grid.set_grid([list(ys)], [[0] * len(ys)])
        grid.integrate(lib.make_function(S, 'G', 1, out_len, cache=False), [1], [a], [b])
    grid.set_grid([list(xs)], [levels])
    f = lib.make_function(S, 'F', 1, out_len, cache=False)
    npts = grid.levelToNumPoints([1])
    S.prove(npts[0] == (n if boundary else n - 2), 'trap:announced-number-of-points')
    pts = grid.getPoints()
    S.prove(len(pts) == npts[0], 'trap:returned-number-of-points')
    S.prove(sym_and(*[pts[i][0] == xs[i + (0 if boundary else 1)] for i in range(len(pts))]), 'trap:points-are-the-given-points')
    val = grid.integrate(f, [1], [a], [b])
    val = list(val) if hasattr(val, '__len__') else [val]
    S.observe('integral', val)
    w = list(grid.weights[0])
    fx = [f.F([x]) for x in xs]
    for k in range(out_len):
        fs = [v[k] for v in fx]
        if boundary:
            want = _pwl_integral(xs, fs)
        elif not modified:
            want = _pwl_integral(xs, [0] + fs[1:-1] + [0])
        else:
            inner_x, inner_f = xs[1:-1], fs[1:-1]
            if len(inner_x) == 1:
                fa = fb = inner_f[0]
            else:
                sl = (inner_f[1] - inner_f[0]) / (inner_x[1] - inner_x[0])
                fa = inner_f[0] + sl * (a - inner_x[0])
                sr = (inner_f[-1] - inner_f[-2]) / (inner_x[-1] - inner_x[-2])
                fb = inner_f[-1] + sr * (b - inner_x[-1])
            want = _pwl_integral(xs, [fa] + inner_f + [fb])
        S.prove(S.eq(val[k], want), 'trap:equals-integral-of-piecewise-linear-interpolant')
    if not modified:
        S.prove(sym_and(*[wi >= 0 for wi in w]), 'trap:weights-non-negative')
    if boundary or modified:
        cx = xs if boundary else xs[1:-1]
        S.prove(S.eq(sum(w), b - a), 'trap:weights-sum-to-length')
        S.prove(S.eq(sum(wi * x for wi, x in zip(w, cx)), (b * b - a * a) / 2), 'trap:linear-functions-exact')
        c0, c1 = S.real('c0'), S.real('c1')
        S.prove(S.eq(sum(wi * (c0 + c1 * x) for wi, x in zip(w, cx)), c0 * (b - a) + c1 * (b * b - a * a) / 2),
                'trap:affine-integrand-exact')


def simpson(S, n, boundary, box=None):
    """All dyadic trees with n points on a symbolic interval [a, a+h] (odd n: closed-form Simpson weights).
    Even n goes through the moment-matching helper grid (sqrt, Gauss constants): only on concrete intervals `box`,
    with a rounding tolerance."""
    if box is None:
        a = S.real('a')
        h = S.real('h')
        S.assume(h > 0)
    else:
        a, h = float(box[0]), float(box[1] - box[0])
    tol = None if box is None else 1e-9
    b = a + h
    lv = lib.tree_levels(S, 'l', n)
    xs = lib.dyadic_coords(lv, a, b)
    G = _grid_mod()
    grid = G.GlobalSimpsonGrid(a=[a], b=[b], boundary=boundary)
    grid.set_grid([list(xs)], [lv])
    w = list(grid.weights[0])
    cx = xs if boundary else xs[1:-1]
    S.observe('weights', w)
    if not boundary:
        return  # without boundary points the interior weights are a sub-vector; exactness claims need boundary points
    sc = h * max(abs(a), abs(b), 1.0) if box is not None else 1.0
    S.prove(S.eq(sum(w), h, sc, tol), 'simpson:weights-sum-to-length')
    S.prove(S.eq(sum(wi * x for wi, x in zip(w, cx)), (b * b - a * a) / 2, sc, tol), 'simpson:linear-exact')
    if n % 2 == 1 and n >= 3:
        S.prove(S.eq(sum(wi * x * x for wi, x in zip(w, cx)), (b ** 3 - a ** 3) / 3), 'simpson:quadratic-exact-odd-n')
    complete = n >= 3 and sorted(lv[1:-1]) == sorted(sum([[l] * 2 ** (l - 1) for l in range(1, max(lv) + 1)], [])) and (n == 2 ** max(lv) + 1)
    if complete:
        S.prove(S.eq(sum(wi * x ** 3 for wi, x in zip(w, cx)), (b ** 4 - a ** 4) / 4), 'simpson:cubic-exact-on-complete-tree')


BOUNDS = {
    'quick': {'trapezoid symbolic points n': [2, 9], 'trapezoid vector-valued n': [3, 5], 'simpson dyadic trees n': [2, 8]},
    'thorough': {'trapezoid symbolic points n': [2, 16], 'trapezoid vector-valued n': [3, 8], 'simpson dyadic trees n': [2, 9]},
}

META = {
    'functions': ['GlobalGrid.set_grid', 'GlobalTrapezoidalGrid.compute_weights', 'GlobalTrapezoidalGrid.compute_1D_quad_weights',
                  'GlobalGrid.levelToNumPoints', 'GlobalGrid.getPoints', 'Grid.get_weights', 'Grid.get_points_and_weights',
                  'Grid.integrate', 'IntegratorArbitraryGridScalarProduct.__call__', 'GlobalSimpsonGrid.compute_1D_quad_weights',
                  'GlobalHighOrderGrid (4-point prefix rule used by GlobalSimpsonGrid on even point counts)',
                  'Grid.check_quality_of_quadrature_rule'],
    'bounds': BOUNDS,
    'assumptions': [
        'points strictly increasing; a = first point, b = last point (what set_grid receives from the refinement trees)',
        'modified basis with 3 points: the inner point is the midpoint (the only 3-point grid a refinement tree with the modified basis produces)',
        'Simpson, odd point counts: dyadic trees on a symbolic interval [a, a+h], h > 0 (coordinates are a + t*h with dyadic t); even point counts (moment-matching helper, sqrt and Gauss constants): concrete intervals [0,1], [-1,1], [2,6] only, tolerance 1e-9 - there the solver only enumerates the trees',
        'floats are exact rationals; rounding is outside the claim',
    ],
    'outside': ['GlobalHighOrderGrid beyond its use inside GlobalSimpsonGrid (LAPACK/NNLS moment matching)',
                'GlobalLagrangeGrid / GlobalBSplineGrid quadrature (covered as far as reachable under C10)', 'more points than the stated n'],
}

MANIFEST_ENTRY = {
    'text': 'Symbolic execution of the real global trapezoidal and Simpson weight code: point positions (trapezoid) or the interval (Simpson) are solver '
            'variables, the integrand is uninterpreted; the identity "rule = exact integral of the piecewise-linear interpolant" and the moment conditions '
            'are decided for all positions/intervals at once, for every point count / dyadic tree up to the bound.',
    'note': 'Trusted: z3, LIFT proxies and numpy facade (object arrays), exact-rational reading of floats. Clauses for GlobalHighOrderGrid, global Lagrange '
            'and B-spline quadrature are not covered by this check (see evidence.outside_claim).',
}


def jobs(tier):
    b = BOUNDS[tier]
    js = []
    lo, hi = b['trapezoid symbolic points n']
    for n in range(lo, hi + 1):
        js.append(Job('trap[n=%d,boundary]' % n, trap, {'n': n, 'boundary': True, 'modified': False}))
        if n >= 3:
            js.append(Job('trap[n=%d,noboundary]' % n, trap, {'n': n, 'boundary': False, 'modified': False}))
            js.append(Job('trap[n=%d,modified]' % n, trap, {'n': n, 'boundary': False, 'modified': True}))
    for n, prior in (((3, 2), (4, 2), (5, 3), (6, 1)) if tier == 'quick' else ((3, 2), (4, 2), (5, 3), (6, 1), (8, 4), (10, 2))):
        js.append(Job('trap-reuse[n=%d,after=%d,boundary]' % (n, prior + 2), trap, {'n': n, 'boundary': True, 'modified': False, 'prior': prior}))
        js.append(Job('trap-reuse[n=%d,after=%d,noboundary]' % (n, prior + 2), trap, {'n': n, 'boundary': False, 'modified': False, 'prior': prior}))
        if n != 3:
            js.append(Job('trap-reuse[n=%d,after=%d,modified]' % (n, prior + 2), trap, {'n': n, 'boundary': False, 'modified': True, 'prior': max(prior, 2)}))
    lo, hi = b['trapezoid vector-valued n']
    for n in range(lo, hi + 1):
        js.append(Job('trapvec[n=%d,boundary]' % n, trap, {'n': n, 'boundary': True, 'modified': False, 'out_len': 2}))
    lo, hi = b['simpson dyadic trees n']
    for n in range(lo, hi + 1):
        if n % 2 == 1 or n == 2:
            js.append(Job('simpson[n=%d]' % n, simpson, {'n': n, 'boundary': True}, validate=(5 if tier == 'quick' else 1)))
        else:
            for box in ([0, 1], [-1, 1], [2, 6]):
                js.append(Job('simpson-even-concrete[n=%d,box=%s]' % (n, box), simpson, {'n': n, 'boundary': True, 'box': box},
                              validate=(9 if tier == 'quick' else 1)))
    return js
