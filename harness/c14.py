"""C14 — interrupted, saved or resumed refinement ends where an uninterrupted run ends.

Dimension-wise strategy, uninterpreted integrand, solver-chosen refinement decisions (keyed by the refinement structure, so both runs
take the same decision in the same state), symbolic limits 0 <= M1 <= M2 <= cap:
  run B: performSpatiallyAdaptiv(max_evaluations=M2)
  run A: performSpatiallyAdaptiv(max_evaluations=M1), optionally the real save_to_file / restore_from_file (dill; the proxies serialise
         themselves as SMT-LIB text), then continue_adaptive_refinement(max_evaluations=M2)
Goals: identical refinement structure (points and levels per dimension), combination scheme, combined result (as a term in F) and
point count; the restored instance gives identical interpolation values and result as the instance that was saved.
The solver yields one path per pair of interruption point and final stopping point.
"""
import os

import numpy as np

from lift import core, lib
from lift.core import sym_and, is_sym
from lift.run import Job
from harness import dw, drv, es

PROPERTY = 'C14'


def _structure(sa, d):
    out = []
    for k in range(d):
        objs, xs, lv = dw.container_state(sa, k)
        out.append(([float(x) for x in xs], [int(l) for l in lv], [int(o.coarsening_level) for o in objs]))
    return out


def _scheme(sa):
    return sorted((tuple(int(x) for x in cg.levelvector), int(cg.coefficient)) for cg in sa.scheme)


def resume(S, d, lmin, lmax, version, boundary, out_len, cap, pool, persist, via='continue', reevaluate=False):
    SD, GO, G, EC, RO, RC = dw.mods()
    m1 = S.int('M1')
    m2 = S.int('M2')
    S.assume(m1 >= 0)
    S.assume(m1 <= m2)
    S.assume(m2 <= cap)
    # run B (uninterrupted)
    fB = lib.make_function(S, 'F', d, out_len)
    saB, opB, _ = dw.make_instance(fB, [0.0] * d, [1.0] * d, boundary=boundary, version=version)
    opB.validation_set = None
    resB = saB.performSpatiallyAdaptiv(lmin, lmax, drv.ScriptedRoundErrors(saB, d, None, 1, pool), tol=-1.0, max_evaluations=m2, print_output=False, reevaluate_at_end=reevaluate)
    # run A (interrupted at M1)
    fA = lib.make_function(S, 'F', d, out_len)
    saA, opA, _ = dw.make_instance(fA, [0.0] * d, [1.0] * d, boundary=boundary, version=version)
    opA.validation_set = None
    resA1 = saA.performSpatiallyAdaptiv(lmin, lmax, drv.ScriptedRoundErrors(saA, d, None, 1, pool), tol=-1.0, max_evaluations=m1, print_output=False, reevaluate_at_end=reevaluate)
    if reevaluate:
        S.prove(int(saA.get_total_num_points()) == int(resA1[6][-1]), 'resume:re-evaluation-at-the-end-keeps-the-number-of-points-used-so-far')
    S.observe('interrupted_at', len(resA1[5]))
    if persist:
        fn = os.path.join(os.getcwd(), 'c14_%d.dill' % os.getpid())
        probe = sorted(set(tuple(float(x) for x in p) for cg in saA.scheme for p in saA.get_points_component_grid(cg.levelvector)))[:12]
        before_vals = saA(probe)
        before_res = [x for x in np.ravel(opA.get_result())]
        saA.save_to_file(fn)
        restored = SD.SpatiallyAdaptiveSingleDimensions2.restore_from_file(fn)
        os.remove(fn)
        S.prove(restored is not None and restored is not saA, 'persist:restore-returns-a-new-instance')
        after_vals = restored(probe)
        ok = True
        for u, v in zip(before_vals, after_vals):
            ok = sym_and(ok, *[S.eq(u[j], v[j]) for j in range(out_len)])
        S.prove(ok, 'persist:restored-instance-interpolates-identically')
        after_res = [x for x in np.ravel(restored.operation.get_result())]
        S.prove(sym_and(*[S.eq(before_res[j], after_res[j]) for j in range(out_len)]), 'persist:restored-instance-reports-the-same-result')
        S.prove(_structure(restored, d) == _structure(saA, d) and _scheme(restored) == _scheme(saA), 'persist:restored-structure-and-scheme-identical')
        saA = restored
    if via == 'container':
        # the other documented way to go on: performSpatiallyAdaptiv with the refinement container of the stopped run
        saA.errorEstimator.round = -1  # the scripted estimator recognises a new evaluation by the length of the history arrays, which this call resets
        resA = saA.performSpatiallyAdaptiv(lmin, lmax, saA.errorEstimator, tol=-1.0, refinement_container=saA.refinement, max_evaluations=m2, print_output=False)
    else:
        resA = saA.continue_adaptive_refinement(tol=-1.0, max_evaluations=m2)
    S.observe('final_points', [int(resA[6][-1]), int(resB[6][-1])])
    S.prove(_structure(saA, d) == _structure(saB, d), 'resume:same-final-refinement-structure')
    S.prove(_scheme(saA) == _scheme(saB) and [int(x) for x in saA.lmax] == [int(x) for x in saB.lmax], 'resume:same-final-combination-scheme')
    rA = [x for x in np.ravel(resA[3])]
    rB = [x for x in np.ravel(resB[3])]
    S.prove(sym_and(*[S.eq(rA[j], rB[j]) for j in range(out_len)]), 'resume:same-combined-result')
    S.prove(int(resA[6][-1]) == int(resB[6][-1]), 'resume:same-point-count')
    S.prove(int(resA[4]) == int(resB[4]), 'resume:same-number-of-evaluations-in-final-grid')


def resume_tol(S, d, lmin, lmax, version, boundary, out_len, cap):
    """Dimension-wise strategy with the REAL surplus error estimator (no reference solution, so the tolerance is compared with the
    estimator's own total surplus error): a run stopped right after its first evaluation and continued with a symbolic tolerance
    against the single run with that tolerance.  (The estimator adds surplus volumes up per refinement object; a continuation
    re-evaluates the refinement it stopped at.)"""
    SD, GO, G, EC, RO, RC = dw.mods()
    tol = S.real('tol')
    S.assume(tol > 0)

    def start(tol_, limit):
        f = lib.make_function(S, 'F', d, out_len)
        sa, op, _ = dw.make_instance(f, [0.0] * d, [1.0] * d, boundary=boundary, version=version)
        res = sa.performSpatiallyAdaptiv(lmin, lmax, EC.ErrorCalculatorSingleDimVolumeGuided(), tol=tol_, max_evaluations=limit, print_output=False)
        return sa, op, res

    saB, opB, resB = start(tol, cap)
    saA, opA, resA1 = start(-1.0, 0)
    S.prove(len(resA1[5]) == 1, 'resume-tol:limit-0-stops-after-the-first-evaluation')
    resA = saA.continue_adaptive_refinement(tol=tol, max_evaluations=cap)
    S.observe('evaluations', [len(resA[5]), len(resB[5])])
    S.prove(_structure(saA, d) == _structure(saB, d), 'resume:same-final-refinement-structure')
    S.prove(_scheme(saA) == _scheme(saB), 'resume:same-final-combination-scheme')
    rA = [x for x in np.ravel(resA[3])]
    rB = [x for x in np.ravel(resB[3])]
    S.prove(sym_and(*[S.eq(rA[j], rB[j]) for j in range(out_len)]), 'resume:same-combined-result')
    S.prove(int(resA[6][-1]) == int(resB[6][-1]), 'resume:same-point-count')
    S.prove(S.eq(resA[5][-1], resB[5][-1]), 'resume:same-final-error-estimate')
    S.prove(S.eq(resA[5][1], resA[5][0]), 'resume:re-evaluating-the-interrupted-state-reports-the-same-error')


def _es_structure(sa):
    return sorted((tuple(float(x) for x in o.start), tuple(float(x) for x in o.end), int(o.coarseningValue), int(o.needExtendScheme), int(o.numberOfRefinementsBeforeExtend))
                  for o in es.leaves(sa))


def resume_es(S, d, lmin, lmax, version, nrbe, auto, out_len, cap, pool, persist, via='continue'):
    """Extend-split: interrupted at M1 (optionally saved/restored), continued to M2, against the uninterrupted run to M2."""
    ES, CELL, GO, G, EC, RO, RC = es.mods()
    m1 = S.int('M1')
    m2 = S.int('M2')
    S.assume(m1 >= 0)
    S.assume(m1 <= m2)
    S.assume(m2 <= cap)
    box = (0.0, 1.0)

    def start(limit):
        f = lib.make_function(S, 'F', d, out_len)
        sa, op, grid, a, b = es.make_es(S, f, d, box, True, version, nrbe, auto, False, pool, keyed=True)
        res = sa.performSpatiallyAdaptiv(lmin, lmax, None, tol=-1.0, max_evaluations=limit, print_output=False)
        return sa, op, res

    saB, opB, resB = start(m2)
    saA, opA, resA1 = start(m1)
    S.observe('interrupted_at', len(resA1[5]))
    if persist:
        fn = os.path.join(os.getcwd(), 'c14es_%d.dill' % os.getpid())
        probe = sorted(set(tuple((float(o.start[k]) + float(o.end[k])) / 2 for k in range(d)) for o in es.leaves(saA)))[:8]
        before_vals = saA(probe)
        before_res = [x for x in np.ravel(opA.get_result())]
        saA.save_to_file(fn)
        restored = ES.SpatiallyAdaptiveExtendScheme.restore_from_file(fn)
        os.remove(fn)
        S.prove(restored is not None and restored is not saA, 'persist:restore-returns-a-new-instance')
        after_vals = restored(probe)
        ok = True
        for u, v in zip(before_vals, after_vals):
            ok = sym_and(ok, *[S.eq(u[j], v[j]) for j in range(out_len)])
        S.prove(ok, 'persist:restored-instance-interpolates-identically')
        after_res = [x for x in np.ravel(restored.operation.get_result())]
        S.prove(sym_and(*[S.eq(before_res[j], after_res[j]) for j in range(out_len)]), 'persist:restored-instance-reports-the-same-result')
        S.prove(_es_structure(restored) == _es_structure(saA) and _scheme(restored) == _scheme(saA), 'persist:restored-structure-and-scheme-identical')
        saA = restored
    if via == 'container':
        saA.calc_error.__self__.round = -1  # see resume()
        resA = saA.performSpatiallyAdaptiv(lmin, lmax, None, tol=-1.0, refinement_container=saA.refinement, max_evaluations=m2, print_output=False)
    else:
        resA = saA.continue_adaptive_refinement(tol=-1.0, max_evaluations=m2)
    S.observe('final_points', [int(resA[6][-1]), int(resB[6][-1])])
    S.prove(_es_structure(saA) == _es_structure(saB), 'resume:same-final-refinement-structure')
    S.prove(_scheme(saA) == _scheme(saB) and [int(x) for x in saA.lmax] == [int(x) for x in saB.lmax], 'resume:same-final-combination-scheme')
    rA = [x for x in np.ravel(resA[3])]
    rB = [x for x in np.ravel(resB[3])]
    S.prove(sym_and(*[S.eq(rA[j], rB[j]) for j in range(out_len)]), 'resume:same-combined-result')
    S.prove(int(resA[6][-1]) == int(resB[6][-1]), 'resume:same-point-count')
    # the result after the continuation is also what a from-scratch evaluation of the final refinement gives
    again = [x for x in np.ravel(saA.evaluate_final_combi()[0])]
    S.prove(sym_and(*[S.eq(rA[j], again[j]) for j in range(out_len)]), 'resume:continued-result-equals-from-scratch-evaluation')


def resume_cell(S, d, level, out_len, cap, pool):
    """Cell strategy (lmin = lmax): interrupted at M1, continued to M2, against the uninterrupted run."""
    ES, CELL, GO, G, EC, RO, RC = es.mods()
    m1 = S.int('M1')
    m2 = S.int('M2')
    S.assume(m1 >= 0)
    S.assume(m1 <= m2)
    S.assume(m2 <= cap)

    def cells(sa):
        return sorted((tuple(float(x) for x in o.start), tuple(float(x) for x in o.end)) for o in sa.refinement.get_objects())

    def start(limit):
        f = lib.make_function(S, 'F', d, out_len)
        a, b = np.zeros(d), np.ones(d)
        grid = G.TrapezoidalGrid(a=a, b=b, boundary=True)
        op = GO.Integration(f=f, grid=grid, dim=d)
        sa = CELL.SpatiallyAdaptiveCellScheme(a, b, operation=op)
        state = {'key': None, 'k': 0}

        class Scripted(EC.ErrorCalculator):
            def calc_error(self_, refine_object, norm, volume_weights=None):
                import hashlib
                key = hashlib.md5(repr(cells(sa)).encode()).hexdigest()[:10]
                if key != state['key']:
                    state['key'] = key
                    state['k'] = 0
                v = 0.0
                if state['k'] < pool:
                    v = float(lib.current_source().choice('cerr_%s_%s' % (key, es._area_key(refine_object)), 2))
                state['k'] += 1
                return v

        res = sa.performSpatiallyAdaptiv(level, level, Scripted(), tol=-1.0, max_evaluations=limit, print_output=False)
        return sa, op, res

    saB, opB, resB = start(m2)
    saA, opA, resA1 = start(m1)
    S.observe('interrupted_at', len(resA1[5]))
    resA = saA.continue_adaptive_refinement(tol=-1.0, max_evaluations=m2)
    S.observe('final_points', [int(resA[6][-1]), int(resB[6][-1])])
    S.prove(cells(saA) == cells(saB), 'resume:same-final-refinement-structure')
    rA = [x for x in np.ravel(resA[3])]
    rB = [x for x in np.ravel(resB[3])]
    S.prove(sym_and(*[S.eq(rA[j], rB[j]) for j in range(out_len)]), 'resume:same-combined-result')
    S.prove(int(resA[6][-1]) == int(resB[6][-1]), 'resume:same-point-count')


BOUNDS = {
    'quick': {'strategy': 'dimension-wise d=2 (lmin,lmax)=(1,2), versions 6 and 3, boundary on/off', 'cap on M2': 27, 'decisions': 'one of the first 2 intervals per round',
              'persistence': [False, True], 'output length': [1, 2],
              'extend-split': 'd=2 (1,2), versions 0/1, automatic extend/split on/off, cap on M2 45 (26 with automatic), dill on one job', 'cell': 'd=2, level 1 (cap 14) and 2 (cap 30)',
              'real estimator': 'dimension-wise, symbolic tolerance, one re-evaluation of the interrupted state', 'refinement_container route': 'dimension-wise cap 27, extend-split cap 34'},
    'thorough': {'strategy': 'dimension-wise d=2 (1,2) and (1,3), versions 6, 3, 7', 'cap on M2': 33, 'decisions': 'one of the first 3 intervals per round',
                 'persistence': [False, True], 'output length': [1, 2]},
}

META = {
    'functions': ['SpatiallyAdaptivBase.performSpatiallyAdaptiv', 'continue_adaptive_refinement', 'init_adaptive_combi', 'evaluate_operation', 'refine',
                  'StandardCombi.save_to_file', 'StandardCombi.restore_from_file', 'SpatiallyAdaptiveSingleDimensions2.*', 'RefinementContainer.reinit_new_objects',
                  'Integration.initialize_evaluation_dimension_wise', 'Function cache (f_dict) across the interruption'],
    'bounds': BOUNDS,
    'assumptions': ['refinement decisions are a function of the refinement structure (scripted, solver-chosen): this is what "the same run" means for an arbitrary integrand/estimator',
                    'limits 0 <= M1 <= M2 <= cap symbolic; the tolerance can never be met (tol=-1), so only the limits stop the runs',
                    'dill is trusted to round-trip ordinary Python state; proxies pickle as SMT-LIB text'],
    'outside': ['cell strategy with save/restore', 'more evaluations than the cap allows', 'continuations of runs that are driven by the real error estimators beyond one re-evaluation (resume-tol)'],
}

MANIFEST_ENTRY = {
    'text': 'Two real driver runs on the same uninterpreted integrand - one interrupted at a symbolic limit M1 (optionally saved with dill and restored) and continued to M2, one '
            'uninterrupted - are compared state by state; the solver enumerates every (interruption point, stopping point) pair within the cap and decides equality of the results as terms in F.',
    'note': 'Trusted: z3, LIFT proxies/numpy facade, dill. Bounded by the evaluation cap and the decision pool. Strategies: dimension-wise, extend-split (with dill), cell; both continuation routes (continue_adaptive_refinement, refinement_container). Also with reevaluate_at_end=True.',
}


def jobs(tier):
    q = tier == 'quick'
    js = []
    cfgs = []
    for v in ((6, 3) if q else (6, 3, 7)):
        for boundary in (True, False):
            for persist in (False, True):
                cfgs.append((2, 1, 2, v, boundary, 2 if (v == 3) else 1, persist))
    if not q:
        for persist in (False, True):
            cfgs.append((2, 1, 3, 6, True, 1, persist))
    for (d, lmin, lmax, v, boundary, out_len, persist) in cfgs:
        cap = (27 if q else 33) if lmax == 2 else 60
        if not boundary:
            cap = 27 - 18  # both tiers: a cap of 15 on the small no-boundary grids means 17504 paths per run (see C13)
        js.append(Job('resume[d=%d,l=%d-%d,v=%d,%s,out=%d,%s]' % (d, lmin, lmax, v, 'b' if boundary else 'nb', out_len, 'dill' if persist else 'mem'), resume,
                      {'d': d, 'lmin': lmin, 'lmax': lmax, 'version': v, 'boundary': boundary, 'out_len': out_len, 'cap': cap, 'pool': 2 if (q or persist) else 3, 'persist': persist},
                      validate=(5 if q else 2), budget_s=(600 if q else 3000)))
    for (d, lmin, lmax, v, boundary, out_len, cap) in ([(2, 1, 2, 6, True, 1, 0), (2, 1, 2, 6, False, 2, 0)] if q else [(2, 1, 2, 6, True, 1, 0), (2, 1, 2, 6, False, 2, 0), (2, 1, 2, 3, True, 2, 0), (2, 1, 3, 6, True, 1, 0), (3, 1, 2, 6, True, 1, 0)]):
        js.append(Job('resume-tol[d=%d,l=%d-%d,v=%d,%s,out=%d,cap=%d]' % (d, lmin, lmax, v, 'b' if boundary else 'nb', out_len, cap), resume_tol,
                      {'d': d, 'lmin': lmin, 'lmax': lmax, 'version': v, 'boundary': boundary, 'out_len': out_len, 'cap': cap},
                      validate=(5 if q else 2), budget_s=(600 if q else 3000)))
    es_cfgs = [(2, 1, 2, 0, 1, False, 1, 45, False), (2, 1, 2, 0, 1, False, 2, 45, True), (2, 1, 2, 1, 2, False, 1, 45, False), (2, 1, 2, 0, 1, True, 1, 26, False)]
    if not q:
        es_cfgs += [(2, 1, 2, 0, 1, False, 1, 54, False), (2, 1, 2, 0, 1, False, 2, 54, True), (2, 1, 2, 1, 2, False, 1, 54, False), (2, 1, 2, 0, 1, True, 1, 30, False)]
        es_cfgs += [(2, 1, 2, 2, 1, False, 2, 45, True), (2, 1, 2, 0, 2, False, 1, 45, False), (2, 1, 2, 0, 1, True, 2, 26, True)]
    for (d, lmin, lmax, v, nrbe, auto, out_len, cap, persist) in es_cfgs:
        js.append(Job('resume-es[d=%d,l=%d-%d,v=%d,nrbe=%d%s,out=%d,cap=%d,%s]' % (d, lmin, lmax, v, nrbe, ',auto' if auto else '', out_len, cap, 'dill' if persist else 'mem'), resume_es,
                      {'d': d, 'lmin': lmin, 'lmax': lmax, 'version': v, 'nrbe': nrbe, 'auto': auto, 'out_len': out_len, 'cap': cap, 'pool': 1 if (q and auto) else 2, 'persist': persist},
                      validate=(5 if q else 2), budget_s=(600 if q else 3000)))
    for (v, boundary) in ([(6, True)] if q else [(6, True), (3, True), (6, False)]):
        cap = (27 if q else 33) if boundary else 27 - 18
        js.append(Job('resume-reeval[d=2,l=1-2,v=%d,%s]' % (v, 'b' if boundary else 'nb'), resume,
                      {'d': 2, 'lmin': 1, 'lmax': 2, 'version': v, 'boundary': boundary, 'out_len': 1, 'cap': cap, 'pool': 2, 'persist': False, 'reevaluate': True},
                      validate=(5 if q else 2), budget_s=(600 if q else 3000)))
    for (v, boundary, reb) in ([(6, True, False)] if q else [(6, True, False), (6, True, True), (3, False, False)]):
        cap = (27 if q else 33) if boundary else 27 - 18
        js.append(Job('resume-container[d=2,l=1-2,v=%d,%s,%s]' % (v, 'b' if boundary else 'nb', 'rebal' if reb else 'norebal'), resume,
                      {'d': 2, 'lmin': 1, 'lmax': 2, 'version': v, 'boundary': boundary, 'out_len': 1, 'cap': cap, 'pool': 2, 'persist': False, 'via': 'container'},
                      validate=(5 if q else 2), budget_s=(600 if q else 3000)))
    js.append(Job('resume-container-es[d=2,l=1-2,v=0,nrbe=1,out=1,cap=%d]' % (34 if q else 45), resume_es,
                  {'d': 2, 'lmin': 1, 'lmax': 2, 'version': 0, 'nrbe': 1, 'auto': False, 'out_len': 1, 'cap': 34 if q else 45, 'pool': 2, 'persist': False, 'via': 'container'},
                  validate=(5 if q else 2), budget_s=(600 if q else 3000)))
    for (d, level, out_len, cap) in ([(2, 1, 1, 14), (2, 2, 2, 30)] if q else [(2, 1, 2, 18), (2, 2, 1, 34), (3, 1, 1, 30)]):
        js.append(Job('resume-cell[d=%d,l=%d,out=%d,cap=%d]' % (d, level, out_len, cap), resume_cell, {'d': d, 'level': level, 'out_len': out_len, 'cap': cap, 'pool': 2},
                      validate=(5 if q else 2), budget_s=(600 if q else 3000)))
    return js
