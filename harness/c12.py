"""C12 — Function evaluation is cache-transparent and matches its analytic integral.

A cache   : Function.__call__/reset_dictionary/deactivate_caching/get_f_dict_size on an uninterpreted integrand;
            the solver picks operation sequences (single / batch incl. empty and repeated points / reset / deactivate)
            and the coordinates (small symbolic ints, so equal and distinct points are both explored);
            compared with a reference model: value = F(p), shape (n, output_length), counter = #distinct points since reset.
B vector  : eval vs eval_vectorized for every class overriding eval_vectorized, symbolic coordinates and parameters
            (exp/cos uninterpreted; GenzDiscontinious uses boolean masks -> concrete coordinates chosen by the solver).
C integral: analytic integral == tensor Simpson/Boole rule (exact for the polynomial degree at hand) applied to the real
            eval, symbolic box and parameters, for the polynomial classes.
"""
import itertools

import numpy as np

from lift import core, lib
from lift.core import sym_and, is_sym
from lift.run import Job

PROPERTY = 'C12'


def _fm():
    from sparseSpACE import Function
    return Function


# ---------------------------------------------------------------------------------------------------
def cache_seq(S, nops, out_len, first_op, scalar_eval=False):
    f = lib.make_function(S, 'F', 1, out_len, cache=True, scalar_eval=scalar_eval)
    model_cache = set()  # distinct points evaluated since last reset (only meaningful while caching is on)
    caching = True
    pts_used = 0

    def point():
        nonlocal pts_used
        v = S.int('p%d' % pts_used)
        pts_used += 1
        S.assume(v >= 0)
        S.assume(v <= 1)
        return v

    for k in range(nops):
        op = S.choice('op%d' % k, 6) if k > 0 else first_op
        if op == 0:  # single evaluation
            p = point()
            r = f((p,))
            want = f.F([p])
            S.prove(np.shape(r) == (out_len,), 'cache:single-shape')
            S.prove(sym_and(*[r[i] == want[i] for i in range(out_len)]), 'cache:single-value')
            if caching:
                model_cache.add(int(p))
        elif op in (1, 2, 3):  # batch of 0 / 1 / 2 points (repeats allowed)
            n = {1: 0, 2: 1, 3: 2}[op]
            ps = [point() for _ in range(n)]
            r = f([(p,) for p in ps])
            S.prove(np.shape(r) == (n, out_len), 'cache:batch-shape')
            ok = True
            for j, p in enumerate(ps):
                want = f.F([p])
                ok = sym_and(ok, *[r[j][i] == want[i] for i in range(out_len)])
            S.prove(ok, 'cache:batch-value')
            if caching:
                for p in ps:
                    model_cache.add(int(p))
        elif op == 4:
            f.reset_dictionary()
            model_cache = set()
        else:
            f.deactivate_caching()
            caching = False
        if caching:
            S.prove(f.get_f_dict_size() == len(model_cache), 'cache:counter-equals-distinct-points-since-reset')
    S.observe('size', f.get_f_dict_size())


# ---------------------------------------------------------------------------------------------------
def _sym_vec(S, name, n):
    return [S.real('%s%d' % (name, i)) for i in range(n)]


def vec_vs_scalar(S, cls, d, npts=2):
    Fm = _fm()
    c = _sym_vec(S, 'c', d)
    if cls == 'FunctionLinear':
        f = Fm.FunctionLinear(c)
    elif cls == 'GenzCornerPeak':
        f = Fm.GenzCornerPeak(c)
    elif cls == 'GenzProductPeak':
        m = _sym_vec(S, 'm', d)
        c = [2.0, 0.5, 4.0, 1.0][:d]  # concrete coefficients: with symbolic ones z3 does not decide c**-2 + (x-m)**2 != 0 reliably
        f = Fm.GenzProductPeak(c, m)
    elif cls == 'GenzOszillatory':
        f = Fm.GenzOszillatory(np.array(c, dtype=object) if S.lifted else np.array(c), S.real('off'))
    elif cls == 'GenzC0':
        f = Fm.GenzC0(np.array(c, dtype=object) if S.lifted else np.array(c), np.array(_sym_vec(S, 'm', d), dtype=object if S.lifted else float))
    elif cls == 'GenzGaussian':
        f = Fm.GenzGaussian(np.array(_sym_vec(S, 'm', d), dtype=object if S.lifted else float), np.array(c, dtype=object) if S.lifted else np.array(c))
    elif cls == 'FunctionExpVar':
        f = Fm.FunctionExpVar()
    else:
        raise AssertionError(cls)
    pts = [_sym_vec(S, 'x%d_' % j, d) for j in range(npts)]
    if cls == 'GenzCornerPeak':
        for p in pts:
            S.assume(1 + sum(ci * xi for ci, xi in zip(c, p)) > 0)
    arr = np.array(pts, dtype=object if S.lifted else float)
    v = f.eval_vectorized(arr)
    ok = True
    for j, p in enumerate(pts):
        s = f.eval(tuple(p))
        ok = sym_and(ok, S.eq(v[j], s))
    S.prove(ok, 'vector:eval_vectorized-equals-eval')
    if cls in ('FunctionLinear', 'GenzCornerPeak', 'GenzProductPeak'):
        S.observe('v', list(np.ravel(v)))  # (values through uninterpreted exp/cos/pow cannot be compared with the real ones)
    # through __call__: batch == singles, shaped (n, 1)
    if not S.lifted or not any(is_sym(x) for p in pts for x in p):
        r = f([tuple(p) for p in pts])
        S.prove(np.shape(r) == (npts, 1), 'vector:batch-shape')


def vec_disc(S, d):
    """GenzDiscontinious: boolean-mask vectorisation -> coordinates from a small concrete lattice chosen by the solver;
    coefficients stay symbolic (exp uninterpreted)."""
    Fm = _fm()
    c = _sym_vec(S, 'c', d)
    border = [0.5] * d
    f = Fm.GenzDiscontinious(np.array(c, dtype=object) if S.lifted else np.array(c), border)
    lattice = [0.0, 0.25, 0.5, 0.75]
    pts = []
    for j in range(2):
        pts.append([lattice[S.choice('i%d_%d' % (j, k), len(lattice))] for k in range(d)])
    arr = np.array(pts, dtype=float)
    v = f.eval_vectorized(arr)
    ok = True
    for j, p in enumerate(pts):
        ok = sym_and(ok, S.eq(v[j], f.eval(tuple(p))))
    S.prove(ok, 'vector:eval_vectorized-equals-eval')


# ---------------------------------------------------------------------------------------------------
_RULES = {
    3: ([0, 0.5, 1], [1 / 6, 4 / 6, 1 / 6]),  # Simpson, exact to degree 3
    5: ([0, 0.25, 0.5, 0.75, 1], [7 / 90, 32 / 90, 12 / 90, 32 / 90, 7 / 90]),  # Boole, exact to degree 5
}


def _quad(g, start, end, deg):
    from fractions import Fraction
    nodes, weights = _RULES[deg]
    if deg == 3:
        weights = [Fraction(1, 6), Fraction(4, 6), Fraction(1, 6)]
        nodes = [Fraction(0), Fraction(1, 2), Fraction(1)]
    else:
        weights = [Fraction(7, 90), Fraction(32, 90), Fraction(12, 90), Fraction(32, 90), Fraction(7, 90)]
        nodes = [Fraction(k, 4) for k in range(5)]
    d = len(start)
    tot = 0
    for idx in itertools.product(range(len(nodes)), repeat=d):
        w = 1
        x = []
        for k in range(d):
            w = w * weights[idx[k]] * (end[k] - start[k])
            x.append(start[k] + (end[k] - start[k]) * nodes[idx[k]])
        tot = tot + w * g(x)
    return tot


def _scalar(v):
    if isinstance(v, (list, tuple, np.ndarray)):
        v = np.ravel(np.asarray(v, dtype=object))
        assert len(v) == 1
        return v[0]
    return v


def analytic(S, cls, d):
    Fm = _fm()
    start = _sym_vec(S, 's', d)
    end = _sym_vec(S, 'e', d)
    for k in range(d):
        S.assume(start[k] < end[k])
    deg = 3
    if cls == 'ConstantValue':
        f = Fm.ConstantValue(S.real('v'))
    elif cls == 'FunctionLinear':
        f = Fm.FunctionLinear(_sym_vec(S, 'c', d))
    elif cls == 'FunctionMultilinear':
        f = Fm.FunctionMultilinear(_sym_vec(S, 'c', d))
    elif cls == 'FunctionPolynomial2':
        f = Fm.FunctionPolynomial(_sym_vec(S, 'c', d), degree=2)
    elif cls == 'FunctionPolynomial3':
        f = Fm.FunctionPolynomial(_sym_vec(S, 'c', d), degree=3)
    elif cls == 'Polynomial1d':
        f = Fm.Polynomial1d(_sym_vec(S, 'c', 6))
        deg = 5
    elif cls == 'FunctionCompose':
        f = Fm.FunctionCompose([(Fm.FunctionLinear(_sym_vec(S, 'c', d)), S.real('w0')),
                                (Fm.FunctionPolynomial(_sym_vec(S, 'q', d), degree=2), S.real('w1'))])
    elif cls == 'FunctionShift':
        t = _sym_vec(S, 't', d)
        f = Fm.FunctionShift(Fm.FunctionLinear(_sym_vec(S, 'c', d)), lambda x: [xi + ti for xi, ti in zip(x, t)])
    else:
        raise AssertionError(cls)
    got = f.getAnalyticSolutionIntegral(start, end)
    S.prove(got is not None, 'integral:analytic-integral-returns-a-value')
    if got is None:
        return
    got = _scalar(got)
    want = _quad(lambda x: _scalar(f.eval(tuple(x))), start, end, deg)
    S.observe('analytic', got)
    S.prove(S.eq(got, want), 'integral:analytic-equals-exact-quadrature-of-eval')


def _genz(S, Fm, cls, coeffs, extra):
    arr = lambda v: np.array(v, dtype=object if S.lifted else float)
    if cls == 'GenzOszillatory':
        return Fm.GenzOszillatory(list(coeffs), extra['offset'])
    if cls == 'GenzCornerPeak':
        return Fm.GenzCornerPeak(list(coeffs))
    if cls == 'GenzProductPeak':
        return Fm.GenzProductPeak(list(coeffs), list(extra['mid'][:len(coeffs)]))
    if cls == 'GenzGaussian':
        return Fm.GenzGaussian(list(extra['mid'][:len(coeffs)]), list(coeffs))
    if cls == 'GenzC0':
        return Fm.GenzC0(list(coeffs), list(extra['mid'][:len(coeffs)]))
    if cls == 'GenzDiscontinious':
        return Fm.GenzDiscontinious(list(coeffs), list(extra['mid'][:len(coeffs)]))
    raise AssertionError(cls)


def genz_relations(S, cls, d, split_dim):
    """Analytic integrals involving sin/cos/exp/erf/atan (uninterpreted: congruence only) cannot be compared with a quadrature of the
    integrand, but they must satisfy the relations every integral satisfies: additivity when the box is cut in one dimension,
    factorisation over the dimensions for the product-type families, and - for the oscillatory family - a dimension with a zero
    coefficient contributes exactly its width."""
    Fm = _fm()
    concrete_c = cls in ('GenzProductPeak', 'GenzGaussian')  # c**-2 / sqrt(c) of a solver variable are not polynomial
    coeffs = [2.0, 0.5, 4.0][:d] if concrete_c else _sym_vec(S, 'c', d)
    if not concrete_c:
        for c in coeffs:
            S.assume(c != 0)
        if cls in ('GenzC0', 'GenzDiscontinious'):
            for c in coeffs:
                S.assume(c > 0)
    extra = {'offset': S.real('off'), 'mid': _sym_vec(S, 'm', d)}
    start = _sym_vec(S, 's', d)
    end = _sym_vec(S, 'e', d)
    for k in range(d):
        S.assume(start[k] < end[k])
    if cls == 'GenzCornerPeak':
        for corner in itertools.product(*[(start[k], end[k]) for k in range(d)]):
            S.assume(1 + sum(c * x for c, x in zip(coeffs, corner)) > 0)
    f = _genz(S, Fm, cls, coeffs, extra)
    whole = _scalar(f.getAnalyticSolutionIntegral(list(start), list(end)))
    # additivity
    mid = S.real('cut')
    S.assume(start[split_dim] < mid)
    S.assume(mid < end[split_dim])
    e1 = list(end)
    e1[split_dim] = mid
    s2 = list(start)
    s2[split_dim] = mid
    left = _scalar(_genz(S, Fm, cls, coeffs, extra).getAnalyticSolutionIntegral(list(start), e1))
    right = _scalar(_genz(S, Fm, cls, coeffs, extra).getAnalyticSolutionIntegral(s2, list(end)))
    S.prove(S.eq(left + right, whole), 'integral:additive-when-the-box-is-cut')
    # factorisation over dimensions
    if cls in ('GenzProductPeak', 'GenzGaussian', 'GenzC0', 'GenzDiscontinious') and d >= 2:
        prod = 1
        for k in range(d):
            ex = {'offset': extra['offset'], 'mid': [extra['mid'][k]]}
            fk = _genz(S, Fm, cls, [coeffs[k]], ex)
            prod = prod * _scalar(fk.getAnalyticSolutionIntegral([start[k]], [end[k]]))
        S.prove(S.close(whole, prod, 1e-12), 'integral:factorises-over-the-dimensions')  # 10**-d vs (10**-1)**d differ by rounding
    # a zero coefficient contributes the width of its dimension
    if cls == 'GenzOszillatory' and d >= 2:
        for k in range(d):
            cz = list(coeffs)
            cz[k] = 0.0
            fz = _genz(S, Fm, cls, cz, extra)
            got = _scalar(fz.getAnalyticSolutionIntegral(list(start), list(end)))
            rest = [j for j in range(d) if j != k]
            fr = _genz(S, Fm, cls, [coeffs[j] for j in rest], extra)
            want = _scalar(fr.getAnalyticSolutionIntegral([start[j] for j in rest], [end[j] for j in rest])) * (end[k] - start[k])
            S.prove(S.eq(got, want), 'integral:zero-coefficient-dimension-contributes-its-width')


def diag_discont(S, d):
    """FunctionDiagonalDiscont: indicator of the simplex sum(x) < 1 on the unit cube, analytic 1/d!.  Checked through the
    exact volume of the simplex computed by the harness from eval on a lattice is not exact -> only the value 1/d!."""
    import math
    Fm = _fm()
    f = Fm.FunctionDiagonalDiscont()
    got = f.getAnalyticSolutionIntegral([0] * d, [1] * d)
    S.prove(S.eq(got, 1.0 / math.factorial(d)), 'integral:simplex-volume')
    # eval is the indicator of the open simplex for symbolic coordinates
    x = _sym_vec(S, 'x', d)
    v = _scalar(f.eval(tuple(x)))
    S.prove(S.eq(v, core.ite(sum(x) < 1, 1.0, 0.0) if S.lifted else (1.0 if sum(x) < 1 else 0.0)), 'integral:indicator')


BOUNDS = {
    'quick': {'cache sequences: operations': 3, 'cache output lengths': [1, 2], 'coordinates': 'symbolic ints in {0,1} (d=1), batches of 0/1/2 points',
              'vectorised classes dims': [1, 2, 3], 'analytic integral dims': [1, 2, 3]},
    'thorough': {'cache sequences: operations': 4, 'cache output lengths': [1, 2, 3], 'coordinates': 'symbolic ints in {0,1} (d=1), batches of 0/1/2 points',
                 'vectorised classes dims': [1, 2, 3, 4], 'analytic integral dims': [1, 2, 3, 4]},
}

META = {
    'functions': ['Function.__call__', 'Function.eval_vectorized', 'Function.reset_dictionary', 'Function.deactivate_caching',
                  'Function.get_f_dict_size', 'FunctionLinear.*', 'FunctionMultilinear.*', 'FunctionPolynomial.*', 'Polynomial1d.*',
                  'ConstantValue.*', 'FunctionCompose.*', 'FunctionShift.*', 'FunctionDiagonalDiscont.*', 'GenzCornerPeak.eval/_vectorized',
                  'GenzProductPeak.eval/_vectorized', 'GenzOszillatory.eval/_vectorized', 'GenzC0.eval/_vectorized',
                  'GenzGaussian.eval/_vectorized', 'GenzDiscontinious.eval/_vectorized', 'FunctionExpVar.eval/_vectorized'],
    'bounds': BOUNDS,
    'assumptions': ['the evaluation counter is compared with the model only while caching is active (the property defines it for cached evaluation)',
                    'exp, cos and x**(1/d) are uninterpreted: only argument equality (congruence) is used',
                    'FunctionShift is used with translations (the only shifts for which its analytic integral is meaningful)',
                    'GenzCornerPeak: 1 + sum c_i x_i > 0 (its domain)'],
    'outside': ['transcendental analytic integrals are only checked through integral relations (additivity, factorisation, zero-coefficient dimension), not against the integrand', 'GenzProductPeak with symbolic coefficients (concrete coefficients 2, 0.5, 4; midpoints and coordinates symbolic) and d > 2', 'analytic integrals involving exp/erf/atan/cos/fractional powers (Genz family, FunctionExpVar, UQ functions): no decidable encoding',
                'FunctionGeneralizedNormal (marked incorrect in the source)', 'scipy.integrate fall-backs of the base class', 'plotting'],
}

MANIFEST_ENTRY = {
    'text': 'Symbolic execution of Function.__call__ and its cache over solver-chosen operation sequences and coordinates against a reference model; '
            'scalar/vectorised agreement and analytic integrals of the polynomial classes decided for symbolic coordinates, boxes and parameters.',
    'note': 'Trusted: z3, LIFT proxies, numpy facade. Transcendental analytic integrals are not applicable (listed in evidence.outside_claim).',
}


def jobs(tier):
    b = BOUNDS[tier]
    js = []
    for out_len in b['cache output lengths']:
        for first_op in range(6):
            js.append(Job('cache[ops=%d,out=%d,first=%d]' % (b['cache sequences: operations'], out_len, first_op), cache_seq,
                          {'nops': b['cache sequences: operations'], 'out_len': out_len, 'first_op': first_op},
                          validate=(7 if tier == 'quick' else 3)))
            if out_len == 1:
                js.append(Job('cache[ops=%d,out=1,scalar-eval,first=%d]' % (b['cache sequences: operations'], first_op), cache_seq,
                              {'nops': b['cache sequences: operations'], 'out_len': 1, 'first_op': first_op, 'scalar_eval': True},
                              validate=(7 if tier == 'quick' else 3)))
    for cls in ['FunctionLinear', 'GenzCornerPeak', 'GenzProductPeak', 'GenzOszillatory', 'GenzC0', 'GenzGaussian', 'FunctionExpVar']:
        for d in b['vectorised classes dims']:
            if cls == 'GenzProductPeak' and d > 2:
                continue
            js.append(Job('vector[%s,d=%d]' % (cls, d), vec_vs_scalar, {'cls': cls, 'd': d}))
    for d in b['vectorised classes dims'][:2]:
        js.append(Job('vector[GenzDiscontinious,d=%d]' % d, vec_disc, {'d': d}, validate=(7 if tier == 'quick' else 1)))
    for cls in ['ConstantValue', 'FunctionLinear', 'FunctionMultilinear', 'FunctionPolynomial2', 'FunctionPolynomial3', 'FunctionCompose',
                'FunctionShift']:
        for d in b['analytic integral dims']:
            js.append(Job('integral[%s,d=%d]' % (cls, d), analytic, {'cls': cls, 'd': d}))
    js.append(Job('integral[Polynomial1d,d=1]', analytic, {'cls': 'Polynomial1d', 'd': 1}))
    for cls in ['GenzOszillatory', 'GenzCornerPeak', 'GenzProductPeak', 'GenzGaussian', 'GenzC0', 'GenzDiscontinious']:
        for d in ((1, 2, 3) if cls == 'GenzOszillatory' or tier != 'quick' else (1, 2)):
            for split_dim in range(d):
                if tier == 'quick' and split_dim not in (0, d - 1):
                    continue
                js.append(Job('relations[%s,d=%d,cut=%d]' % (cls, d, split_dim), genz_relations, {'cls': cls, 'd': d, 'split_dim': split_dim},
                              validate=(5 if tier == 'quick' else 2), timeout_ms=30000, budget_s=(300 if tier == 'quick' else 1500)))
    for d in (1, 2, 3):
        js.append(Job('integral[FunctionDiagonalDiscont,d=%d]' % d, diag_discont, {'d': d}))
    return js
