"""C19 — classification assigns the arg-max density class under the learning scaling (scoped to the Classification bookkeeping).

The learned per-class densities are replaced by UNINTERPRETED functions D_c : [0,1]^d -> R (P3; learning itself is density estimation,
C16), everything else is the real code on a symbolic labelled DataSet: Classification.__init__/_initialize (split off unlabelled
samples, scaling fixed from the labelled samples or from a user-given range, optional shuffle = solver-chosen permutation,
boundary samples to the front, even/uneven split), _process_performed_classification, __call__, test_data, _internal_scaling,
_classificate, _evaluate.

  scale      the scaling recorded at learning time is (x - min) * 0.99/(max - min) + 0.005 per feature of the labelled samples
             (or of the given range); learning + testing data are exactly the scaled labelled samples
  call       cl(new data): every in-range sample gets argmax_c D_c(position under the LEARNING scaling), first maximum wins;
             samples whose scaled position leaves [0.0049, 0.9951] in some feature are removed, not classified
  test       cl.test_data(new data): unlabelled samples go to the omitted collection, the labelled in-range ones are classified as above,
             appended to the testing data; summary {wrong, total, percentage} consistent with classes and labels
  history    classes assigned by earlier test_data calls / the initial split are unchanged by later evaluate / test calls
"""
import itertools
import time
from fractions import Fraction

import numpy as np

from lift import core, lib, mlstubs
from lift.core import sym_and, sym_or, sym_not, sym_implies, is_sym
from lift.run import Job

PROPERTY = 'C19'


def _ml():
    from sparseSpACE import DEMachineLearning as ML
    return ML


class AbstractDensity:
    """Stands for a learned StandardCombi classificator: __call__(points) -> (n,1) array of D_c(point)."""

    def __init__(self, S, f):
        self.S, self.f = S, f

    def __call__(self, points):
        pts = np.asarray(points, dtype=object if self.S.lifted else float)
        out = np.empty((len(pts), 1), dtype=object if self.S.lifted else float)
        for i, p in enumerate(pts):
            out[i, 0] = self.f(list(p))[0]
        return out

    def get_total_num_points(self):
        return 0


def _dataset(S, tag, n, dim, label_patterns):
    ML = _ml()
    samples = [[S.real('%s%d_%d' % (tag, i, k)) for k in range(dim)] for i in range(n)]
    for row in samples:
        for v in row:
            S.assume(v >= -8)
            S.assume(v <= 8)
    labels = list(label_patterns[S.choice('%slabels' % tag, len(label_patterns))])
    arr = np.array(samples, dtype=object if S.lifted else float).reshape((n, dim))
    return ML.DataSet((arr, np.array(labels, dtype=np.int64)), name=tag), samples, labels


def _mn(S, a, b):
    return core.sym_min(a, b) if S.lifted else min(a, b)


def _mx(S, a, b):
    return core.sym_max(a, b) if S.lifted else max(a, b)


def _learning_scaling(S, samples, labels, dim, given_range):
    """Reference: per-feature (min, factor) fixed at learning time."""
    lab = [s for s, l in zip(samples, labels) if l >= 0]
    mins, facs = [], []
    for k in range(dim):
        if given_range is not None:
            lo, hi = given_range[0][k], given_range[1][k]
            mins.append(lo)
            facs.append(0.99 / (hi - lo))
            continue
        lo = hi = lab[0][k]
        for s in lab[1:]:
            lo, hi = _mn(S, lo, s[k]), _mx(S, hi, s[k])
        mins.append(lo)
        rng = hi - lo
        if S.lifted:
            facs.append(core.ite(rng == 0, core.SymNum.const(Fraction(0.99), False), 0.99 / core.ite(rng == 0, core.SymNum.const(1, False), rng)) if is_sym(rng) else (0.99 if rng == 0 else 0.99 / rng))
        else:
            facs.append(0.99 if rng == 0 else 0.99 / rng)
    return mins, facs


def _pos(S, x, mins, facs):
    return [(x[k] - mins[k]) * facs[k] + 0.005 for k in range(len(x))]


def _inrange(S, p):
    c = [sym_and(v >= 0.0049, v <= 0.9951) for v in p] if S.lifted else [0.0049 <= v <= 0.9951 for v in p]
    return sym_and(*c) if S.lifted else all(c)


def _argmax_is(S, dens, c):
    """numpy.argmax semantics: c is the first index with the maximal value."""
    conds = [dens[c] > dens[j] for j in range(c)] + [dens[c] >= dens[j] for j in range(c + 1, len(dens))]
    return sym_and(*conds) if conds else True


def _rows(ds):
    if ds.is_empty():
        return []
    data, labels = ds.get_data()
    return [(list(data[i]), int(labels[i])) for i in range(len(labels))]


def classify(S, dim, nlearn, percentage, split_evenly, shuffle, with_range, nnew, scenario):
    ML = _ml()
    pats = {2: [(0, 1), (1, 0)], 3: [(0, 1, -1), (0, 1, 1), (1, 0, 0), (-1, 0, 1)], 4: [(0, 1, 0, 1), (0, 0, 1, -1), (1, 0, 1, 0)]}[nlearn]
    raw, samples, labels = _dataset(S, 'x', nlearn, dim, pats)
    given = None
    if with_range:
        given = (np.array([-9.0] * dim), np.array([9.0] * dim))
    cl = ML.Classification(raw, data_range=given, split_percentage=percentage, split_evenly=split_evenly, shuffle_data=shuffle, print_output=False)
    mins, facs = _learning_scaling(S, samples, labels, dim, given)
    ncls = 2
    D = [S.func('D%d' % c, dim) for c in range(ncls)]
    # --- scale: learning + testing data are the scaled labelled samples
    want = sorted([(tuple(_pos(S, s, mins, facs)), l) for s, l in zip(samples, labels) if l >= 0], key=lambda t: t[1])
    got = _rows(cl._learning_data) + _rows(cl._testing_data)
    S.prove(len(got) == len(want), 'scale:labelled-samples-are-split-into-learning-and-testing-data')
    ok = True
    for row, l in got:
        # some labelled original sample with this label is mapped onto the row by the reference scaling
        ok = sym_and(ok, sym_or(*[sym_and(*[S.eq(row[k], w[k], 1.0, 1e-9) for k in range(dim)]) for w, wl in want if wl == l]) if S.lifted else
                     any(all(S.eq(row[k], w[k], 1.0, 1e-9) for k in range(dim)) for w, wl in want if wl == l))
    S.prove(ok, 'scale:learning-and-testing-samples-are-the-originals-under-the-recorded-scaling')
    om = _rows(cl._omitted_data)
    S.prove(len(om) == sum(1 for l in labels if l < 0) and all(l < 0 for _, l in om), 'scale:unlabelled-samples-set-aside')
    # --- "learning": abstract densities, then the real post-processing (classifies the initial testing split)
    cl._process_performed_classification([(AbstractDensity(S, D[c]), None) for c in range(ncls)], time.time(), False)
    t0 = _rows(cl._testing_data)
    c0 = [int(c) for c in cl.get_calculated_classes_testset()]
    S.prove(len(c0) == len(t0), 'history:one-class-per-initial-testing-sample')
    ok = True
    for (row, l), c in zip(t0, c0):
        ok = sym_and(ok, _argmax_is(S, [D[j](row)[0] for j in range(ncls)], c))
    S.prove(ok, 'history:initial-testing-samples-get-the-argmax-class')
    # --- later calls
    newpats = {1: [(0,), (1,), (-1,)], 2: [(0, 1), (1, -1), (0, 0)]}[nnew]
    hist_classes = list(c0)
    hist_len = len(t0)
    for rnd, kind in enumerate(scenario):
        new, nsamples, nlabels = _dataset(S, 'n%d_' % rnd, nnew, dim, newpats)
        pos = [_pos(S, s, mins, facs) for s in nsamples]
        inr = [_inrange(S, p) for p in pos]
        inr_b = [bool(v) for v in inr]  # forks: which of the new samples are inside the learned range
        if kind == 'call':
            if not any(inr_b):
                try:
                    cl(new, print_removed=False)
                    S.prove(False, 'call:all-samples-out-of-range-is-reported')
                except ValueError:
                    S.prove(True, 'call:all-samples-out-of-range-is-reported')
                continue
            res = cl(new, print_removed=False)
            rows = _rows(res)
            keep = [i for i in range(nnew) if inr_b[i]]
            S.prove(len(rows) == len(keep), 'call:out-of-range-samples-are-removed-not-classified')
            ok = True
            for (row, c), i in zip(rows, keep):
                ok = sym_and(ok, *[S.eq(row[k], pos[i][k], 1.0, 1e-9) for k in range(dim)])
                ok = sym_and(ok, _argmax_is(S, [D[j](pos[i])[0] for j in range(ncls)], c))
            S.prove(ok, 'call:every-sample-gets-the-argmax-class-at-its-position-under-the-learning-scaling')
        else:
            keep = [i for i in range(nnew) if inr_b[i]]
            used = [i for i in keep if nlabels[i] >= 0]
            if not keep:
                try:
                    cl.test_data(new, print_output=False, print_removed=False)
                    S.prove(False, 'test:all-samples-out-of-range-is-reported')
                except ValueError:
                    S.prove(True, 'test:all-samples-out-of-range-is-reported')
                continue
            n_om_before = len(_rows(cl._omitted_data))
            if not used:
                # only unlabelled samples in range: nothing to evaluate (the summary would divide by zero) - outside the stated behaviour
                continue
            summary = cl.test_data(new, print_output=False, print_removed=False)
            S.prove(len(_rows(cl._omitted_data)) == n_om_before + len(keep) - len(used), 'test:unlabelled-samples-set-aside')
            tt = _rows(cl._testing_data)
            cc = [int(c) for c in cl.get_calculated_classes_testset()]
            S.prove(len(tt) == hist_len + len(used) and len(cc) == len(hist_classes) + len(used), 'test:labelled-in-range-samples-appended-to-testing-data')
            new_c = cc[len(hist_classes):]
            ok = True
            wrong = 0
            for c, i in zip(new_c, used):
                ok = sym_and(ok, _argmax_is(S, [D[j](pos[i])[0] for j in range(ncls)], c))
                wrong += 0 if c == nlabels[i] else 1
            S.prove(ok, 'test:every-tested-sample-gets-the-argmax-class-at-its-position-under-the-learning-scaling')
            S.prove(summary['Wrong mappings'] == wrong and summary['Total mappings'] == len(used) and
                    abs(summary['Percentage correct'] - (1.0 - wrong / len(used))) < 1e-12, 'test:summary-consistent-with-classes-and-labels')
            hist_len += len(used)
        cc = [int(c) for c in cl.get_calculated_classes_testset()]
        S.prove(cc[:len(hist_classes)] == hist_classes, 'history:earlier-classes-unchanged-by-later-calls')
        hist_classes = cc


BOUNDS = {
    'quick': {'learning set': '2-3 samples in 1-2 features (values in [-8,8]), label patterns over {0,1,unlabelled} with both classes present', 'split': 'percentage 1.0 / 0.5, even / uneven, shuffle on (n=2,3) / off',
              'range': 'from the data or given ([-9,9]^d)', 'later calls': 'sequences (call), (test), (test,call), (test,test) with 1-2 new samples, inside / partly outside / entirely outside the range'},
    'thorough': {'learning set': '2-4 samples in 1-2 features', 'split': 'as quick plus percentage 0.7', 'range': 'as quick', 'later calls': 'as quick plus (call,test), (test,test,call); 2 new samples in every round'},
}

META = {
    'functions': ['Classification.__init__', '_initialize', '_internal_scaling', '_classificate', '__call__', 'test_data', '_evaluate', '_process_performed_classification', 'get_calculated_classes_testset',
                  'DataSet.split_without_labels/scale_range/shift_value/scale_factor/shuffle/move_boundaries_to_front/split_labels/split_pieces/list_concatenate/concatenate/remove_samples/same_scaling'],
    'bounds': BOUNDS,
    'assumptions': ['the learned per-class densities are uninterpreted functions of the scaled position (P3); the learning itself is C16',
                    'sklearn MinMaxScaler / shuffle -> reference stand-ins (documented formula; solver-chosen permutation)', 'labels 0 and 1 both present among the labelled samples; -1 = unlabelled',
                    'test_data on data whose in-range samples are all unlabelled is skipped (summary undefined)'],
    'outside': ['perform_classification / perform_classification_dimension_wise themselves (density estimation, C16)', 'more than two classes', 'printing / plotting', 'Clustering'],
}

MANIFEST_ENTRY = {
    'text': 'Classification bookkeeping on a symbolic labelled data set with uninterpreted per-class densities: scaling fixed at learning time, arg-max class under that scaling for evaluate and test calls, '
            'removal of out-of-range samples, handling of unlabelled samples, summary consistency, stability of earlier classes under later calls.',
    'note': 'Trusted: z3, LIFT proxies/numpy facade, stand-ins for sklearn scaler/shuffle. The learning step is abstracted (uninterpreted densities).',
}


def jobs(tier):
    q = tier == 'quick'
    mlstubs.validate()
    extra = mlstubs.ml_shims()
    js = []
    cfgs = []
    scen = [('call',), ('test',), ('test', 'call'), ('test', 'test')] + ([] if q else [('call', 'test'), ('test', 'test', 'call')])
    if q:
        # (dim, nlearn, pct, even, shuffle, with_range, nnew, scenario)
        for sc in scen:
            nnew = 2 if len(sc) == 1 else 1
            cfgs.append((1, 2, 1.0, True, False, False, nnew, sc))
            cfgs.append((1, 2, 0.5, True, len(sc) == 1, False, nnew, sc))
            cfgs.append((1, 2, 0.5, False, False, False, nnew, sc))
        for sc in (('call',), ('test',)):
            cfgs.append((1, 2, 1.0, True, False, True, 2, sc))
            cfgs.append((1, 3, 1.0, True, False, False, 1, sc))
            cfgs.append((1, 3, 0.5, True, False, False, 1, sc))
            cfgs.append((1, 3, 0.5, False, False, False, 1, sc))
            cfgs.append((2, 2, 1.0, True, False, False, 1, sc))
            cfgs.append((2, 2, 0.5, True, False, False, 1, sc))
    else:
        for dim in (1, 2):
            for nlearn in (2, 3, 4):
                for (pct, even) in [(1.0, True), (0.5, True), (0.5, False), (0.7, True)]:
                    for with_range in (False, True):
                        for sc in scen:
                            if (dim == 2 or nlearn == 4) and len(sc) > 1:
                                continue
                            if with_range and len(sc) > 1:
                                continue
                            shuffle = nlearn <= 3 and dim == 1 and pct != 1.0 and not with_range and len(sc) == 1
                            nnew = 2 if (dim == 1 and nlearn <= 3 and len(sc) == 1) else 1
                            cfgs.append((dim, nlearn, pct, even, shuffle, with_range, nnew, sc))
    for (dim, nlearn, pct, even, shuffle, with_range, nnew, sc) in cfgs:
        js.append(Job('classify[d=%d,n=%d,pct=%s,%s,%s,%s,new=%d,%s]' % (dim, nlearn, pct, 'even' if even else 'uneven', 'shuffle' if shuffle else 'noshuffle', 'range' if with_range else 'datarange',
                                                                         nnew, '+'.join(sc)), classify,
                      {'dim': dim, 'nlearn': nlearn, 'percentage': pct, 'split_evenly': even, 'shuffle': shuffle, 'with_range': with_range, 'nnew': nnew, 'scenario': list(sc)},
                      extra_shims=extra, validate=(7 if q else 3), budget_s=(600 if q else 3000), timeout_ms=30000))
    return js
