"""C16 — density estimation solves the right linear system.

Uniform component grids (DensityEstimation.build_R_matrix / calculate_B / solve_density_estimation):
G  R == Gram matrix of the interior hat basis + lambda*I with a SYMBOLIC lambda, symmetric; mass-lumped value == Gram diagonal.
B  calculate_B (small-grid implementation) with SYMBOLIC sample positions in the unit cube and solver-chosen class labels:
   b_i == sample mean of the (label-signed) basis function phi_i.
H  scalar (hat_function), in-support scalar, vectorised and completely vectorised hat evaluations agree at a symbolic point (the solver
   explores the equality cases: points on cell boundaries); get_hats_in_support misses no hat that is non-zero at x.
N  solve_density_estimation: mean of the positive parts of the surpluses is one unless it vanishes (exact elimination stand-in).

Non-uniform component grids of the dimension-wise refinement (…_dimension_wise):
Gdw  build_R_matrix_dimension_wise / calculate_R_value_analytically on SYMBOLIC knot positions (gaps >= 1/16 summing to one) and on
     every refinement tree of the bound: R == Gram matrix of the non-symmetric nodal hats + lambda*I, symmetric, lumped form == diagonal.
Bdw  calculate_B_dimension_wise (small-grid implementation, hat_function_non_symmetric_completely_vectorized) on every refinement tree
     of the bound with SYMBOLIC samples (boolean masks fork per entry): b_i == (signed) sample mean of the non-symmetric hat.
Hdw  get_hat_domain, hat_function_non_symmetric and the neighbour search of the large-grid implementation (get_neighbors_optimized /
     take_closest) at a symbolic point on symbolic or tree geometry.
Ndw  solve_density_estimation_dimension_wise: quadrature-weighted mean of the positive parts is one unless it vanishes.
"""
import itertools
from fractions import Fraction

import numpy as np

from lift import core, lib
from lift.core import sym_and, sym_or, sym_not, sym_implies, is_sym
from lift.run import Job

PROPERTY = 'C16'


def _op(S, dim, levelvec, lambd=0.0, masslumping=False, classes=None, data=None):
    from sparseSpACE import GridOperation as GO
    if data is None:
        data = np.zeros((1, dim))
    op = GO.DensityEstimation(data, dim, masslumping=masslumping, lambd=lambd, classes=classes, pre_scaled_data=True, print_output=False)
    op.grid.numPoints = 2 ** np.asarray(levelvec, dtype=int) - 1
    op.initialized = True
    return op


def _gram_1d(l, i, j):
    h = Fraction(1, 2 ** l)
    if i == j:
        return 2 * h / 3
    if abs(i - j) == 1:
        return h / 6
    return Fraction(0)


def gram(S, levelvec, masslumping):
    dim = len(levelvec)
    lam = S.real('lambda')
    S.assume(lam >= 0)
    op = _op(S, dim, levelvec, lambd=lam, masslumping=masslumping)
    R = op.build_R_matrix(list(levelvec))
    idx = list(itertools.product(*[range(1, 2 ** l) for l in levelvec]))
    diag = 1
    for l in levelvec:
        diag = diag * _gram_1d(l, 1, 1)
    if masslumping:
        S.prove(S.close(R, diag, 1e-12), 'gram:mass-lumped-value-is-the-gram-diagonal')
        return
    n = len(idx)
    S.prove(np.shape(R) == (n, n), 'gram:matrix-shape')
    ok = True
    sym_ok = True
    for a, ia in enumerate(idx):
        for b, ib in enumerate(idx):
            g = 1
            for k in range(dim):
                g = g * _gram_1d(levelvec[k], ia[k], ib[k])
            want = g + (lam if a == b else 0)
            ok = ok and S.close(R[a, b], want, 1e-12)
            sym_ok = sym_ok and S.close(R[a, b], R[b, a], 1e-15)
    S.prove(ok, 'gram:R-equals-gram-matrix-plus-lambda-on-the-diagonal')
    S.prove(sym_ok, 'gram:R-symmetric')
    S.observe('n', n)


def _ref_hat(levelvec, ivec, x, lifted):
    v = 1
    for k in range(len(levelvec)):
        t = 1 - abs(2 ** levelvec[k] * x[k] - ivec[k])
        v = v * (core.sym_max(t, 0) if lifted else max(t, 0))
    return v


def _class_weights(S, nsamples):
    """Class weights as DataSet.split_one_vs_others produces them: 1 for the class itself, a negative weight in [-1, 0) for the others
    (-1/4 stands for an unbalanced split); concrete values chosen by the solver keep the obligations linear."""
    W = (1.0, -1.0, -0.25)
    if nsamples > 1:
        # several samples: two patterns per sample (the first one carries the unbalanced weight) - bounds the number of labellings
        return np.array([((1.0, -0.25) if m == 0 else (1.0, -1.0))[S.choice('cls%d' % m, 2)] for m in range(nsamples)])
    return np.array([W[S.choice('cls%d' % m, len(W))] for m in range(nsamples)])


def rhs_large(S, levelvecs, nsamples, with_classes):
    """The large-grid (>= 200 points) implementation of the uniform right-hand side, run on small grids by replacing the literal size threshold
    in the function's current code object (see harness/c17.py), for a SEQUENCE of component grids on ONE operation object - as the combination
    technique evaluates them.  Every right-hand side is the (signed) sample mean of each basis function."""
    from harness.c17 import threshold, LARGE
    dim = len(levelvecs[0])
    xs = _samples(S, nsamples, dim)
    data = np.array(xs, dtype=object if S.lifted else float)
    classes = _class_weights(S, nsamples) if with_classes else None
    with threshold(LARGE, ['calculate_B']):
        op = _op(S, dim, levelvecs[0], classes=classes, data=data)
        for g, levelvec in enumerate(levelvecs):
            op.grid.numPoints = 2 ** np.asarray(levelvec, dtype=int) - 1
            b = op.calculate_B(data, list(levelvec))
            idx = list(itertools.product(*[range(1, 2 ** l) for l in levelvec]))
            S.prove(len(b) == len(idx), 'rhs-large:one-entry-per-basis-function')
            ok = True
            for n, iv in enumerate(idx):
                want = 0
                for m in range(nsamples):
                    sign = classes[m] if classes is not None else 1.0
                    want = want + sign * _ref_hat(levelvec, iv, xs[m], S.lifted)
                want = want / nsamples
                ok = sym_and(ok, S.eq(b[n], want))
            S.prove(ok, 'rhs-large:b-is-the-(signed)-sample-mean-of-each-basis-function-(grid %d of the sequence)' % (g + 1))


def rhs(S, levelvec, nsamples, with_classes):
    dim = len(levelvec)
    xs = [[S.real('x%d_%d' % (m, k)) for k in range(dim)] for m in range(nsamples)]
    for row in xs:
        for v in row:
            S.assume(v >= 0)
            S.assume(v <= 1)
    data = np.array(xs, dtype=object if S.lifted else float)
    classes = None
    if with_classes:
        classes = _class_weights(S, nsamples)
    op = _op(S, dim, levelvec, classes=classes, data=data)
    b = op.calculate_B(data, list(levelvec))
    idx = list(itertools.product(*[range(1, 2 ** l) for l in levelvec]))
    S.prove(len(b) == len(idx), 'rhs:one-entry-per-basis-function')
    ok = True
    for n, iv in enumerate(idx):
        want = 0
        for m in range(nsamples):
            sign = classes[m] if classes is not None else 1.0
            want = want + sign * _ref_hat(levelvec, iv, xs[m], S.lifted)
        want = want / nsamples
        ok = sym_and(ok, S.eq(b[n], want))
    S.prove(ok, 'rhs:b-is-the-(signed)-sample-mean-of-each-basis-function')
    S.observe('b', list(b))


def hats(S, levelvec):
    dim = len(levelvec)
    x = [S.real('x%d' % k) for k in range(dim)]
    for v in x:
        S.assume(v >= 0)
        S.assume(v <= 1)
    op = _op(S, dim, levelvec)
    lv = np.array(levelvec, dtype=int)
    xa = np.array(x, dtype=object if S.lifted else float)
    idx = list(itertools.product(*[range(1, 2 ** l) for l in levelvec]))
    scal = {iv: op.hat_function(iv, list(levelvec), x) for iv in idx}
    ref_ok = sym_and(*[S.eq(scal[iv], _ref_hat(levelvec, iv, x, S.lifted)) for iv in idx])
    S.prove(ref_ok, 'hats:scalar-evaluation-is-the-tensor-hat')
    comp = op.hat_function_in_support_completely_vectorized(np.array(idx, dtype=int), lv, np.array([x], dtype=object if S.lifted else float))
    S.prove(sym_and(*[S.eq(comp[0][n], scal[iv]) for n, iv in enumerate(idx)]), 'hats:completely-vectorised-equals-scalar')
    supp = [tuple(int(v) for v in h) for h in op.get_hats_in_support(list(levelvec), xa)]
    S.observe('nsupp', len(supp))
    S.prove(len(set(supp)) == len(supp) and all(h in scal for h in supp), 'hats:support-list-contains-valid-distinct-indices')
    # every hat that is non-zero at x is in the support list
    S.prove(sym_and(*[S.eq(scal[iv], 0) for iv in idx if iv not in supp]), 'hats:hats-outside-the-support-list-vanish-at-x')
    if supp:
        vec = op.hat_function_in_support_vectorized(np.array(supp, dtype=int), lv, xa)
        S.prove(sym_and(*[S.eq(vec[n], scal[h]) for n, h in enumerate(supp)]), 'hats:vectorised-equals-scalar-on-the-support')
        one = op.hat_function_in_support(np.array(supp[0], dtype=int), lv, xa)
        S.prove(S.eq(one, scal[supp[0]]), 'hats:in-support-scalar-equals-scalar')


def normalise(S, levelvec, lam, with_classes):
    dim = len(levelvec)
    nsamples = 2
    xs = [[S.real('x%d_%d' % (m, k)) for k in range(dim)] for m in range(nsamples)]
    for row in xs:
        for v in row:
            S.assume(v >= 0)
            S.assume(v <= 1)
    data = np.array(xs, dtype=object if S.lifted else float)
    classes = np.array([1.0, -1.0]) if with_classes else None
    op = _op(S, dim, levelvec, lambd=lam, classes=classes, data=data)
    alphas = op.solve_density_estimation(list(levelvec))
    al = list(alphas)
    pos = [core.sym_max(a, 0) if S.lifted else max(a, 0) for a in al]
    mean_pos = sum(pos) / len(al)
    S.observe('n', len(al))
    # either the density vanishes (no positive part) or the positive parts average to one
    allzero = sym_and(*[p == 0 for p in pos]) if S.lifted else all(p == 0 for p in pos)
    S.prove(sym_or(allzero, S.eq(mean_pos, 1, 1.0, 1e-9)), 'normalise:mean-of-positive-parts-is-one-unless-it-vanishes')
    if with_classes:
        pass


# ------------------------------------------------------------------ non-uniform (dimension-wise refined) component grids
def _dw_op(S, dim, lambd=0.0, masslumping=False, classes=None, data=None):
    from sparseSpACE import GridOperation as GO
    from sparseSpACE.Grid import GlobalTrapezoidalGrid as GlobalTrapezoidGrid
    if data is None:
        data = np.zeros((1, dim))
    grid = GlobalTrapezoidGrid(a=np.zeros(dim), b=np.ones(dim), boundary=False)
    op = GO.DensityEstimation(data, dim, grid=grid, masslumping=masslumping, lambd=lambd, classes=classes, pre_scaled_data=True, print_output=False,
                              reuse_old_values=False)
    op.dimension_wise = True
    op.initialized = True
    op.max_levels = [1] * dim
    return op


MIN_GAP = Fraction(1, 16)


def _stripes(S, npts, symbolic):
    """One coordinate list per dimension: knots 0 < x_1 < ... < x_n < 1 given by symbolic positive gaps (each >= MIN_GAP: the analytic
    matrix entries cancel catastrophically in floating point for tiny gaps, which is outside the exact-arithmetic claim), or the dyadic
    points of a solver-chosen refinement tree."""
    stripes, levels = [], []
    for d, n in enumerate(npts):
        if symbolic and n == 1:
            # a stripe with one interior point: refinement always places it at the midpoint
            stripes.append([0.0, 0.5, 1.0])
            levels.append([0, 1, 0])
        elif symbolic:
            # n+1 symbolic gaps that sum to one; the last knot is passed as that sum, so every knot difference the code forms is a
            # polynomial in the gaps (no opaque reciprocal of "1 - x_n")
            xs, acc = [], 0
            for i in range(n + 1):
                h = S.real('h%d_%d' % (d, i))
                S.assume(h >= MIN_GAP)
                acc = acc + h
                xs.append(acc)
            S.assume(acc == 1)
            stripes.append([0.0] + xs)
            levels.append([0] + [1] * n + [0])
        else:
            lv = lib.tree_levels(S, 'tree%d' % d, n + 2)
            stripes.append([float(c) for c in lib.dyadic_coords(lv, 0.0, 1.0)])
            levels.append(list(lv))
    return stripes, levels


def _gram_1d_nonuniform(xs, i, j):
    """Exact L2 product of the piecewise linear nodal hats i, j (1-based interior indices) on the knots xs (incl. 0 and 1)."""
    if i == j:
        return (xs[i] - xs[i - 1]) / 3 + (xs[i + 1] - xs[i]) / 3
    if abs(i - j) == 1:
        a, b = min(i, j), max(i, j)
        return (xs[b] - xs[a]) / 6
    return 0


def gramdw(S, npts, masslumping, symbolic):
    dim = len(npts)
    lam = S.real('lambda')
    S.assume(lam >= 0)
    stripes, levels = _stripes(S, npts, symbolic)
    op = _dw_op(S, dim, lambd=lam, masslumping=masslumping)
    if S.lifted:
        core.CTX().abs_implied = True
    R = op.build_R_matrix_dimension_wise(stripes, levels)
    idx = list(itertools.product(*[range(1, n + 1) for n in npts]))
    n = len(idx)
    S.prove(np.shape(R) == ((n,) if masslumping else (n, n)), 'gramdw:matrix-shape')
    for a, ia in enumerate(idx):
        for b, ib in enumerate(idx):
            if (masslumping and a != b) or b < a:
                continue
            g = 1
            for k in range(dim):
                g = g * _gram_1d_nonuniform(stripes[k], ia[k], ib[k])
            want = g + (lam if a == b else 0)
            got = R[a] if masslumping else R[a, b]
            S.prove(S.eq(got, want, 1.0, 1e-11), 'gramdw:R-equals-gram-matrix-of-the-nonuniform-hats-plus-lambda' + ('-(lumped: diagonal)' if masslumping else ''))
            if not masslumping and a != b:
                S.prove(S.eq(R[a, b], R[b, a], 1.0, 1e-15), 'gramdw:R-symmetric')
    S.observe('n', n)


def _ref_hat_nonuniform(stripes, iv, x, lifted):
    v = 1
    mx = core.sym_max if lifted else max
    mn = core.sym_min if lifted else min
    for k, i in enumerate(iv):
        xs = stripes[k]
        up = 1 - (x[k] - xs[i]) / (xs[i + 1] - xs[i])
        down = 1 - (xs[i] - x[k]) / (xs[i] - xs[i - 1])
        v = v * mx(mn(up, down), 0)
    return v


def _samples(S, nsamples, dim):
    xs = [[S.real('x%d_%d' % (m, k)) for k in range(dim)] for m in range(nsamples)]
    for row in xs:
        for v in row:
            S.assume(v >= 0)
            S.assume(v <= 1)
    return xs


def rhsdw(S, npts, nsamples, with_classes):
    dim = len(npts)
    stripes, levels = _stripes(S, npts, False)
    xs = _samples(S, nsamples, dim)
    data = np.array(xs, dtype=object if S.lifted else float)
    classes = None
    if with_classes:
        classes = _class_weights(S, nsamples)
    op = _dw_op(S, dim, classes=classes, data=data)
    b = op.calculate_B_dimension_wise(data, stripes, levels)
    idx = list(itertools.product(*[range(1, n + 1) for n in npts]))
    S.prove(len(b) == len(idx), 'rhsdw:one-entry-per-basis-function')
    ok = True
    for n, iv in enumerate(idx):
        want = 0
        for m in range(nsamples):
            sign = classes[m] if classes is not None else 1.0
            want = want + sign * _ref_hat_nonuniform(stripes, iv, xs[m], S.lifted)
        want = want / nsamples
        ok = sym_and(ok, S.eq(b[n], want))
    S.prove(ok, 'rhsdw:b-is-the-(signed)-sample-mean-of-each-nonuniform-hat')


def hatsdw(S, npts, symbolic):
    """Scalar non-symmetric hat, its domain lookup and the neighbour search used by the large-grid right-hand side, at a symbolic point."""
    dim = len(npts)
    stripes, levels = _stripes(S, npts, symbolic)
    x = _samples(S, 1, dim)[0]
    op = _dw_op(S, dim)
    idx = list(itertools.product(*[range(1, n + 1) for n in npts]))
    pts = {iv: tuple(stripes[k][i] for k, i in enumerate(iv)) for iv in idx}
    vals = {}
    for iv in idx:
        dom = op.get_hat_domain(pts[iv], stripes)
        S.prove(sym_and(*[sym_and(S.eq(dom[k][0], stripes[k][i - 1]), S.eq(dom[k][1], stripes[k][i + 1])) for k, i in enumerate(iv)]), 'hatsdw:hat-domain-is-bounded-by-the-neighbouring-knots')
        vals[iv] = op.hat_function_non_symmetric(pts[iv], dom, x)
    S.prove(sym_and(*[S.eq(vals[iv], _ref_hat_nonuniform(stripes, iv, x, S.lifted)) for iv in idx]), 'hatsdw:scalar-nonsymmetric-hat-is-the-piecewise-linear-nodal-hat')
    neigh, nidx = op.get_neighbors_optimized(x, stripes)
    nset = [tuple(int(v) for v in t) for t in nidx]
    S.observe('nneigh', len(nset))
    S.prove(all(t in vals for t in nset) and len(set(nset)) == len(nset), 'hatsdw:neighbour-search-returns-distinct-interior-points')
    S.prove(sym_and(*[S.eq(vals[iv], 0) for iv in idx if iv not in nset]), 'hatsdw:hats-not-returned-by-the-neighbour-search-vanish-at-x')
    S.prove(sym_and(*[sym_and(*[S.eq(neigh[n][k], stripes[k][t[k]]) for k in range(dim)]) for n, t in enumerate(nset)]), 'hatsdw:neighbour-coordinates-match-their-indices')


def normalisedw(S, npts, lam, with_classes, masslumping):
    dim = len(npts)
    stripes, levels = _stripes(S, npts, False)
    xs = _samples(S, 2, dim)
    data = np.array(xs, dtype=object if S.lifted else float)
    classes = np.array([1.0, -1.0]) if with_classes else None
    op = _dw_op(S, dim, lambd=lam, classes=classes, data=data, masslumping=masslumping)
    op.grid.set_grid(stripes, levels)
    alphas = op.solve_density_estimation_dimension_wise(stripes, levels, None)
    al = list(alphas)
    _, weights = op.grid.get_points_and_weights()
    S.prove(len(weights) == len(al), 'normalisedw:one-weight-per-surplus')
    mx = core.sym_max if S.lifted else max
    pos = [mx(a, 0) for a in al]
    wmean = sum(p * w for p, w in zip(pos, weights)) / sum(weights)
    allzero = sym_and(*[p == 0 for p in pos]) if S.lifted else all(p == 0 for p in pos)
    S.prove(sym_or(allzero, S.eq(wmean, 1, 1.0, 1e-9)), 'normalisedw:weighted-mean-of-positive-parts-is-one-unless-it-vanishes')


BOUNDS = {
    'quick': {'gram level vectors': [(1,), (2,), (3,), (1, 1), (2, 1), (2, 2), (3, 2)], 'rhs': 'levels <= (2,2) with 1 sample, (2,1) with 2 samples, with/without class labels',
              'hats': 'levels <= (2,2), one symbolic point', 'normalise': 'levels (2,), (2,1) (3 points), lambda in {0, 0.01}, 2 symbolic samples',
              'gramdw': 'interior points per dimension <= (3,), (2,2) on symbolic knots (gaps >= 1/16); all refinement trees with (3,), (3,2) interior points',
              'rhsdw': 'all refinement trees with <= 3 (1-D) / 2x1 (2-D) interior points, 1-2 symbolic samples', 'hatsdw': '<= 3 / 2x1 symbolic knots, trees 3 / 3x2',
              'normalisedw': 'trees with 2, 3 interior points (1-D), lambda in {0, 0.01}, 2 symbolic samples, with/without labels and mass lumping'},
    'thorough': {'gram level vectors': [(1,), (2,), (3,), (4,), (1, 1), (2, 1), (2, 2), (3, 2), (3, 3), (2, 2, 1)], 'rhs': 'levels <= (3,2) with 1 sample, (2,2) with 2 samples',
                 'hats': 'levels <= (3,2), (2,2,1)', 'normalise': 'levels (2,), (3,), (2,1), lambda in {0, 0.01, 1}',
                 'gramdw': 'symbolic knots <= (4,), (3,2); trees (5,), (3,3), (2,2,1)', 'rhsdw': 'trees <= (5,), (3,1), (2,2)', 'hatsdw': 'symbolic <= (4,), (2,2); trees (5,), (3,3)',
                 'normalisedw': 'trees (2,), (3,), (2,1), lambda in {0, 0.01, 1}'},
}

META = {
    'functions': ['DensityEstimation.build_R_matrix', 'calculate_B (small-grid branch)', 'hat_function', 'hat_function_in_support', 'hat_function_in_support_vectorized',
                  'MachineLearning.hat_function_in_support_completely_vectorized', 'get_hats_in_support', 'solve_density_estimation',
                  'build_R_matrix_dimension_wise', 'calculate_R_value_analytically', 'get_hat_domain_for_every_grid_point_vectorized', 'calculate_B_dimension_wise (small-grid branch)',
                  'hat_function_non_symmetric_completely_vectorized', 'hat_function_non_symmetric', 'get_hat_domain', 'get_neighbors_optimized', 'get_grid_points_with_support', 'take_closest',
                  'solve_density_estimation_dimension_wise', 'GlobalTrapezoidalGrid.set_grid/get_points_and_weights'],
    'bounds': BOUNDS,
    'assumptions': ['component grids without boundary points on the unit cube (the configuration the operation supports); samples inside [0,1]^d',
                    'numpy.linalg.solve replaced by exact elimination (lambda concrete in the normalisation harnesses)',
                    'floats are exact rationals in the lifted run: the analytic non-uniform matrix entries cancel catastrophically in IEEE arithmetic for tiny knot gaps '
                    '(relative error about 6e-16/h^3), so symbolic knot gaps are bounded below by 1/16 and concrete re-runs use an absolute tolerance of 1e-11',
                    'a stripe with a single interior point has it at 0.5 (as refinement produces it)',
                    'float constants of the code (1/(2**(l-1)*3)) compared coefficient-wise with 1e-12'],
    'outside': ['numeric (nquad) matrix entries (scipy C code)', 'the large-grid (>= 200 points) branches of calculate_B / calculate_B_dimension_wise as a whole '
                '(their building blocks get_hats_in_support, hat_function_in_support_vectorized, get_neighbors_optimized, hat_function_non_symmetric are covered by H / Hdw)',
                'reuse of old values (C17)', 'data scaling', 'modified basis', 'combi(points) after perform_operation (interpolation of the combined density)'],
}

MANIFEST_ENTRY = {
    'text': 'Density-estimation kernels on uniform and on non-uniform (dimension-wise refined) component grids: the system matrix with a symbolic lambda (and symbolic knot positions) against the '
            'exact Gram matrix, the small-grid right-hand side with symbolic sample positions against the definition, agreement of the hat evaluations at a symbolic point, and the '
            'normalisation of the returned surpluses.',
    'note': 'Trusted: z3, LIFT proxies/numpy facade, exact linear-solve stand-in. Numeric (nquad) entries and the >=200-point branches as a whole are outside (see evidence.outside_claim).',
}


def jobs(tier):
    q = tier == 'quick'
    b = BOUNDS[tier]
    js = []
    for lv in b['gram level vectors']:
        for ml in (False, True):
            js.append(Job('gram[l=%s,%s]' % ('x'.join(map(str, lv)), 'lumped' if ml else 'full'), gram, {'levelvec': list(lv), 'masslumping': ml}))
    rh = [((1,), 1), ((2,), 1), ((2,), 2), ((1, 1), 1), ((2, 1), 1), ((2, 1), 2), ((2, 2), 1)] if q else \
        [((1,), 1), ((2,), 1), ((2,), 2), ((3,), 2), ((1, 1), 1), ((2, 1), 1), ((2, 1), 2), ((2, 2), 1), ((2, 2), 2), ((3, 2), 1)]
    for lv, ns in rh:
        for wc in (False, True):
            js.append(Job('rhs[l=%s,samples=%d,%s]' % ('x'.join(map(str, lv)), ns, 'classes' if wc else 'plain'), rhs, {'levelvec': list(lv), 'nsamples': ns, 'with_classes': wc},
                          validate=(5 if q else 2), timeout_ms=30000, budget_s=(600 if q else 3000)))
    for lvs, ns in ([(((2,), (3,), (2,)), 1), (((2, 1), (1, 2), (2, 1)), 1), (((2, 2), (2, 1)), 1)] if q else
                    [(((2,), (3,), (2,)), 2), (((2, 1), (1, 2), (2, 1)), 2), (((2, 2), (2, 1), (1, 2)), 1), (((3, 2), (2, 3)), 1), (((2, 2, 1), (1, 2, 2)), 1)]):
        for wc in (False, True):
            js.append(Job('rhs-large[l=%s,samples=%d,%s]' % ('+'.join('x'.join(map(str, lv)) for lv in lvs), ns, 'classes' if wc else 'plain'), rhs_large,
                          {'levelvecs': [list(lv) for lv in lvs], 'nsamples': ns, 'with_classes': wc}, validate=(5 if q else 2), timeout_ms=30000, budget_s=(600 if q else 3000)))
    for lv in ([(1,), (2,), (3,), (1, 1), (2, 1), (2, 2)] if q else [(1,), (2,), (3,), (4,), (1, 1), (2, 1), (2, 2), (3, 2), (2, 2, 1)]):
        js.append(Job('hats[l=%s]' % 'x'.join(map(str, lv)), hats, {'levelvec': list(lv)}, validate=(5 if q else 2), timeout_ms=30000, budget_s=(600 if q else 3000)))
    for lv in ([(2,), (2, 1)] if q else [(2,), (3,), (2, 1)]):
        for lam in ((0.0, 0.01) if q else (0.0, 0.01, 1.0)):
            for wc in (False, True):
                js.append(Job('normalise[l=%s,lambda=%s,%s]' % ('x'.join(map(str, lv)), lam, 'classes' if wc else 'plain'), normalise,
                              {'levelvec': list(lv), 'lam': lam, 'with_classes': wc}, validate=(5 if q else 2), timeout_ms=30000, budget_s=(600 if q else 3000)))
    for npts, symb in ([((1,), True), ((2,), True), ((3,), True), ((1, 1), True), ((2, 1), True), ((2, 2), True), ((3,), False), ((3, 2), False)] if q else
                       [((1,), True), ((2,), True), ((3,), True), ((4,), True), ((1, 1), True), ((2, 1), True), ((2, 2), True), ((3, 2), True), ((3,), False), ((5,), False), ((3, 3), False), ((2, 2, 1), False)]):
        for ml in (False, True):
            js.append(Job('gramdw[n=%s,%s,%s]' % ('x'.join(map(str, npts)), 'symgeom' if symb else 'trees', 'lumped' if ml else 'full'), gramdw,
                          {'npts': list(npts), 'masslumping': ml, 'symbolic': symb}, validate=(5 if q else 2), timeout_ms=60000, budget_s=(600 if q else 3000)))
    for npts, ns in ([((1,), 1), ((2,), 1), ((3,), 1), ((3,), 2), ((1, 1), 1), ((2, 1), 1)] if q else [((1,), 1), ((2,), 1), ((3,), 1), ((3,), 2), ((5,), 1), ((1, 1), 1), ((2, 1), 1), ((3, 1), 1), ((2, 2), 1), ((2, 1), 2)]):
        for wc in (False, True):
            js.append(Job('rhsdw[n=%s,samples=%d,%s]' % ('x'.join(map(str, npts)), ns, 'classes' if wc else 'plain'), rhsdw, {'npts': list(npts), 'nsamples': ns, 'with_classes': wc},
                          validate=(5 if q else 2), timeout_ms=30000, budget_s=(600 if q else 3000)))
    for npts, symb in ([((1,), True), ((2,), True), ((3,), True), ((2, 1), True), ((3,), False), ((3, 2), False)] if q else
                       [((1,), True), ((2,), True), ((3,), True), ((4,), True), ((2, 1), True), ((2, 2), True), ((3,), False), ((5,), False), ((3, 3), False)]):
        js.append(Job('hatsdw[n=%s,%s]' % ('x'.join(map(str, npts)), 'symgeom' if symb else 'trees'), hatsdw, {'npts': list(npts), 'symbolic': symb},
                      validate=(5 if q else 2), timeout_ms=30000, budget_s=(600 if q else 3000)))
    for npts in ([(2,), (3,)] if q else [(2,), (3,), (2, 1)]):
        for lam in ((0.0, 0.01) if q else (0.0, 0.01, 1.0)):
            for wc in (False, True):
                for ml in (False, True):
                    js.append(Job('normalisedw[n=%s,lambda=%s,%s,%s]' % ('x'.join(map(str, npts)), lam, 'classes' if wc else 'plain', 'lumped' if ml else 'full'), normalisedw,
                                  {'npts': list(npts), 'lam': lam, 'with_classes': wc, 'masslumping': ml}, validate=(5 if q else 2), timeout_ms=30000, budget_s=(600 if q else 3000)))
    return js
