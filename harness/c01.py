"""C01 — adaptive combination scheme is a valid inclusion-exclusion scheme.

H1 init      : real init_adaptive_combi_scheme(lmin+k, lmin), symbolic lmin >= 0 (level tuples are lmin+const)
H2 step      : arbitrary INV state in the box lmin+[0..K]^d (one solver Bool per cell and set), symbolic target
               level vector, real update_adaptive_combi -> INV', returned dims <=> added neighbours
H3 coeffs    : for every INV state of the box (solver enumerates the down-sets): real getCombiScheme ->
               inclusion-exclusion identity  sum_{g >= l} c_g = [l in set]
H4 closed    : un-initialised closed form == freshly initialised adaptive scheme
H5 history   : real Python sets, all update sequences of length <= n from the initial scheme (targets chosen by
               the solver among the active indices + one non-refinable request)
H1+H2 is an induction over histories of any length inside the box.
"""
import itertools

from lift import core
from lift.core import SymNum, SymBool, sym_and, sym_or, sym_not, sym_implies, is_sym
from lift.run import Job

PROPERTY = 'C01'


def _scheme_mod():
    from sparseSpACE import combiScheme
    return combiScheme


class OutsideBox(Exception):
    pass


class SymSet:
    """Set of level tuples inside the box base+[0..K]^d; membership of each cell is a (symbolic) boolean.
    Implements what CombiScheme uses: in, add, remove, |, iteration, len is not needed."""

    def __init__(self, base, K, d, member):
        self.base, self.K, self.d = base, K, d
        self.member = dict(member)

    def cells(self):
        return itertools.product(range(self.K + 1), repeat=self.d)

    def _match(self, tup, o):
        return sym_and(*[(tup[i] - self.base) == o[i] for i in range(self.d)])

    def _inside(self, tup):
        return sym_and(*[sym_and((tup[i] - self.base) >= 0, (tup[i] - self.base) <= self.K) for i in range(self.d)])

    def contains(self, tup):
        return sym_or(*[sym_and(self.member[o], self._match(tup, o)) for o in self.cells()])

    def __contains__(self, tup):
        return self.contains(tup)  # Python applies bool() -> fork

    def add(self, tup):
        if not self._inside(tup):
            raise OutsideBox('level vector leaves the box')
        for o in self.cells():
            self.member[o] = sym_or(self.member[o], self._match(tup, o))

    def remove(self, tup):
        if not self.contains(tup):
            raise KeyError(tup)
        for o in self.cells():
            self.member[o] = sym_and(self.member[o], sym_not(self._match(tup, o)))

    def __or__(self, other):
        return SymSet(self.base, self.K, self.d, {o: sym_or(self.member[o], other.member[o]) for o in self.cells()})

    def __iter__(self):
        for o in self.cells():
            if self.member[o]:  # fork per cell
                yield tuple(self.base + x for x in o)


def _inv(cells, K, d, old, act):
    """Representation invariant as one boolean term."""
    cs = []
    for o in cells:
        cs.append(sym_not(sym_and(old[o], act[o])))
        ino = sym_or(old[o], act[o])
        for i in range(d):
            if o[i] > 0:
                b = o[:i] + (o[i] - 1,) + o[i + 1:]
                cs.append(sym_implies(ino, old[b]))
            if o[i] < K:
                f = o[:i] + (o[i] + 1,) + o[i + 1:]
                cs.append(sym_implies(act[o], sym_not(sym_or(old[f], act[f]))))
    return sym_and(*cs)


def _state(S, d, K, top_empty):
    """Arbitrary INV state in the box.  Lifted: Bools; concrete: real Python sets."""
    cells = list(itertools.product(range(K + 1), repeat=d))
    lmin = S.int('lmin')
    S.assume(lmin >= 0)
    if S.lifted:
        S.ctx.hash_mode = 'affine'
        S.ctx.affine_atoms.add(list(lmin.terms)[0][0][0])
    old = {}
    act = {}
    for o in cells:
        nm = '_'.join(map(str, o))
        if S.lifted:
            import z3
            old[o] = SymBool(z3.Bool('old_' + nm))
            act[o] = SymBool(z3.Bool('act_' + nm))
            S.ctx.inputs['old_' + nm] = old[o].as_num()
            S.ctx.inputs['act_' + nm] = act[o].as_num()
        else:
            old[o] = bool(S.int('old_' + nm))
            act[o] = bool(S.int('act_' + nm))
    S.assume(_inv(cells, K, d, old, act))
    S.assume(sym_or(*[sym_or(old[o], act[o]) for o in cells]))  # non-empty
    S.assume(sym_or(old[cells[0]], act[cells[0]]))
    if top_empty:
        for o in cells:
            if max(o) == K:
                S.assume(sym_not(sym_or(old[o], act[o])))
    return cells, lmin, old, act


def _make_scheme(S, d, K, lmin, cells, old, act):
    cs = _scheme_mod().CombiScheme(d)
    cs.lmin = lmin
    cs.lmax = lmin
    cs.initialized_adaptive = True
    if S.lifted:
        cs.old_index_set = SymSet(lmin, K, d, old)
        cs.active_index_set = SymSet(lmin, K, d, act)
    else:
        cs.old_index_set = set(tuple(lmin + x for x in o) for o in cells if old[o])
        cs.active_index_set = set(tuple(lmin + x for x in o) for o in cells if act[o])
    return cs


def _members(S, cs, cells, lmin):
    """Post-state membership per cell (SymBool or bool) for both sets."""
    if S.lifted:
        return dict(cs.old_index_set.member), dict(cs.active_index_set.member)
    old = {o: tuple(lmin + x for x in o) in cs.old_index_set for o in cells}
    act = {o: tuple(lmin + x for x in o) in cs.active_index_set for o in cells}
    return old, act


# ---------------------------------------------------------------------------------------------------
def h2_step(S, d, K):
    cells, lmin, old, act = _state(S, d, K, top_empty=True)
    cs = _make_scheme(S, d, K, lmin, cells, old, act)
    lmaxA = S.int('lmax_adaptive')
    for o in cells:
        for i in range(d):
            S.assume(sym_implies(sym_or(old[o], act[o]), lmaxA >= lmin + o[i]))
    cs.lmax_adaptive = lmaxA
    s = [S.int('s%d' % i) for i in range(d)]  # arbitrary target offset (inside or outside the box)
    target = [lmin + x for x in s]
    was_active = sym_or(*[sym_and(act[o], *[s[i] == o[i] for i in range(d)]) for o in cells])
    ret = cs.update_adaptive_combi(list(target))
    old2, act2 = _members(S, cs, cells, lmin)
    S.observe('returned', -1 if ret is None else sorted(ret))
    if ret is None:
        S.prove(sym_not(was_active), 'step:None-only-when-not-refinable')
        S.prove(sym_and(*[sym_and(_iff(old2[o], old[o]), _iff(act2[o], act[o])) for o in cells]),
                'step:non-refinable-leaves-state-unchanged')
        S.prove(cs.lmax_adaptive == lmaxA, 'step:non-refinable-keeps-lmax_adaptive')
        return
    S.prove(was_active, 'step:refined-only-when-active')
    S.prove(_inv(cells, K, d, old2, act2), 'step:INV-preserved')
    # the target moved from active to old; nothing else left the sets
    is_t = {o: sym_and(*[s[i] == o[i] for i in range(d)]) for o in cells}
    S.prove(sym_and(*[sym_implies(is_t[o], sym_and(old2[o], sym_not(act2[o]))) for o in cells]), 'step:target-becomes-old')
    S.prove(sym_and(*[sym_implies(sym_not(is_t[o]), _iff(old2[o], old[o])) for o in cells]), 'step:old-set-otherwise-unchanged')
    S.prove(sym_and(*[sym_implies(sym_and(act[o], sym_not(is_t[o])), act2[o]) for o in cells]), 'step:other-actives-kept')
    # returned dims <=> forward neighbour added; added only forward neighbours of the target; all admissible ones added
    for i in range(d):
        in_ret = i in ret
        is_fw = {o: sym_and(*[(s[j] + (1 if j == i else 0)) == o[j] for j in range(d)]) for o in cells}
        added = sym_or(*[sym_and(is_fw[o], act2[o], sym_not(act[o])) for o in cells])
        S.prove(_iff(added, in_ret), 'step:returned-dims-iff-neighbour-added')
        # admissible <=> all backward neighbours (>= lmin) of the forward neighbour are in old'
        adm = []
        for o in cells:
            conds = [is_fw[o]]
            for j in range(d):
                if o[j] > 0:
                    b = o[:j] + (o[j] - 1,) + o[j + 1:]
                    conds.append(old2[b])
            adm.append(sym_and(*conds))
        S.prove(_iff(sym_or(*adm), in_ret), 'step:all-admissible-neighbours-added')
    newly = sym_and(*[sym_implies(sym_and(act2[o], sym_not(act[o])),
                                  sym_or(*[sym_and(*[(s[j] + (1 if j == i else 0)) == o[j] for j in range(d)]) for i in
                                           range(d)])) for o in cells])
    S.prove(newly, 'step:only-forward-neighbours-added')
    for o in cells:
        for i in range(d):
            S.prove(sym_implies(sym_or(old2[o], act2[o]), cs.lmax_adaptive >= lmin + o[i]), 'step:lmax_adaptive-bounds-levels')
            break
    S.prove(cs.lmax_adaptive >= lmaxA, 'step:lmax_adaptive-monotone')


def _iff(a, b):
    return sym_and(sym_implies(a, b), sym_implies(b, a))


# ---------------------------------------------------------------------------------------------------
def h3_coeffs(S, d, K):
    cells, lmin, old, act = _state(S, d, K, top_empty=False)
    cs = _make_scheme(S, d, K, lmin, cells, old, act)
    grids = cs.getCombiScheme(do_print=False)
    # after the real iteration every membership bit on this path is decided
    inset = {o: bool(sym_or(old[o], act[o])) for o in cells}
    coeff = {}
    for g in grids:
        off = tuple(int(x - lmin) if not is_sym(x - lmin) else None for x in g.levelvector)
        S.prove(all(x is not None for x in off), 'coeff:levelvector-is-lmin-plus-const')
        S.prove(off in inset and inset[off], 'coeff:returned-grid-inside-index-set')
        S.prove(g.coefficient != 0, 'coeff:no-zero-coefficient-returned')
        S.prove(off not in coeff, 'coeff:no-duplicate-grid')
        coeff[off] = g.coefficient
    S.observe('scheme', sorted((list(k), v) for k, v in coeff.items()))
    for l in cells:
        tot = sum(c for g, c in coeff.items() if all(g[i] >= l[i] for i in range(d)))
        S.prove(tot == (1 if inset[l] else 0), 'coeff:inclusion-exclusion-identity')
    S.prove(sum(coeff.values()) == 1, 'coeff:sum-is-one')


# ---------------------------------------------------------------------------------------------------
def _real_scheme(S, d, k):
    lmin = S.int('lmin')
    S.assume(lmin >= 0)
    if S.lifted:
        S.ctx.hash_mode = 'affine'
        S.ctx.affine_atoms.add(list(lmin.terms)[0][0][0])
    cs = _scheme_mod().CombiScheme(d)
    cs.init_adaptive_combi_scheme(lmin + k, lmin)
    return lmin, cs


def _offsets(lmin, idx_set):
    out = set()
    for t in idx_set:
        o = []
        for x in t:
            v = x - lmin
            assert not is_sym(v), 'level not of the form lmin+const'
            o.append(int(v))
        out.add(tuple(o))
    return out


def _check_inv_concrete(S, d, old, act, tag):
    S.prove(not (old & act), tag + ':old-active-disjoint')
    full = old | act
    ok_b = True
    ok_f = True
    for o in full:
        for i in range(d):
            if o[i] > 0:
                b = o[:i] + (o[i] - 1,) + o[i + 1:]
                ok_b = ok_b and (b in old)
        if o in act:
            for i in range(d):
                f = o[:i] + (o[i] + 1,) + o[i + 1:]
                ok_f = ok_f and (f not in full)
    S.prove(all(min(o) >= 0 for o in full), tag + ':all-levels-at-least-lmin')
    S.prove(ok_b, tag + ':downward-closed-backward-neighbours-old')
    S.prove(ok_f, tag + ':active-has-no-forward-neighbour')


def _check_coeffs_concrete(S, d, lmin, cs, full, tag):
    grids = cs.getCombiScheme(do_print=False)
    coeff = {}
    for g in grids:
        off = tuple(int(x - lmin) for x in g.levelvector)
        S.prove(off in full, tag + ':returned-grid-inside-index-set')
        S.prove(g.coefficient != 0 and off not in coeff, tag + ':nonzero-unique')
        coeff[off] = g.coefficient
    K = max(max(o) for o in full) + 1
    ok = True
    for l in itertools.product(range(K + 1), repeat=d):
        tot = sum(c for g, c in coeff.items() if all(g[i] >= l[i] for i in range(d)))
        ok = ok and (tot == (1 if l in full else 0))
    S.prove(ok, tag + ':inclusion-exclusion-identity')
    S.prove(sum(coeff.values()) == 1, tag + ':sum-is-one')
    return coeff


def h1_init(S, d, k):
    lmin, cs = _real_scheme(S, d, k)
    old = _offsets(lmin, cs.old_index_set)
    act = _offsets(lmin, cs.active_index_set)
    S.observe('sizes', [len(old), len(act)])
    _check_inv_concrete(S, d, old, act, 'init')
    want = set(o for o in itertools.product(range(k + 1), repeat=d) if sum(o) <= k)
    S.prove((old | act) == want, 'init:index-set-is-simplex')
    S.prove(act == set(o for o in want if sum(o) == k), 'init:active-is-top-diagonal')
    S.prove(cs.lmax_adaptive == lmin + k, 'init:lmax_adaptive')
    _check_coeffs_concrete(S, d, lmin, cs, old | act, 'init')


def h4_closed(S, d, k):
    lmin, cs = _real_scheme(S, d, k)
    fresh = _scheme_mod().CombiScheme(d)
    a = cs.getCombiScheme(do_print=False)
    b = fresh.getCombiScheme(lmin, lmin + k, do_print=False)
    ma = sorted((tuple(int(x - lmin) for x in g.levelvector), g.coefficient) for g in a)
    mb = sorted((tuple(int(x - lmin) for x in g.levelvector), g.coefficient) for g in b if g.coefficient != 0)
    S.observe('closed', [[list(t), c] for t, c in mb])
    S.prove(len(ma) == len(mb) and all(x[0] == y[0] for x, y in zip(ma, mb)), 'closed:same-grids')
    S.prove(all(x[1] == y[1] for x, y in zip(ma, mb)), 'closed:same-coefficients')
    S.prove(all(g.coefficient != 0 for g in b), 'closed:no-zero-coefficient-returned')


def h5_history(S, d, k, n):
    lmin, cs = _real_scheme(S, d, k)
    for step in range(n):
        act = sorted(_offsets(lmin, cs.active_index_set))
        c = S.choice('pick%d' % step, len(act) + 2)
        before_old = _offsets(lmin, cs.old_index_set)
        before_act = set(act)
        if c >= len(act):
            # non-refinable request: an old index (c == len) or a vector outside the set
            if c == len(act) and before_old:
                t = sorted(before_old)[0]
            else:
                t = tuple(x + 1 for x in act[-1])
            r = cs.update_adaptive_combi([lmin + x for x in t])
            S.prove(r is None, 'hist:non-refinable-returns-None')
            S.prove(_offsets(lmin, cs.old_index_set) == before_old and _offsets(lmin, cs.active_index_set) == before_act,
                    'hist:non-refinable-leaves-state-unchanged')
            continue
        t = act[c]
        r = cs.update_adaptive_combi([lmin + x for x in t])
        old = _offsets(lmin, cs.old_index_set)
        act2 = _offsets(lmin, cs.active_index_set)
        _check_inv_concrete(S, d, old, act2, 'hist')
        added = act2 - before_act
        S.prove(sorted(r) == sorted(i for i in range(d) if (t[:i] + (t[i] + 1,) + t[i + 1:]) in added) and len(added) == len(r),
                'hist:returned-dims-iff-neighbour-added')
        S.prove(cs.lmax_adaptive - lmin == max(max(o) for o in old | act2), 'hist:lmax_adaptive-is-max-level')
        _check_coeffs_concrete(S, d, lmin, cs, old | act2, 'hist')
    S.observe('final', sorted(map(list, _offsets(lmin, cs.get_index_set()))))


def h6_reuse(S, d, k, n):
    """Two refinement histories on ONE CombiScheme object (re-initialised in between, as a second adaptive run on the same instance does), the
    scheme queried after solver-chosen steps only: whatever the object remembers from earlier queries or from the first run must not show."""
    lmin, cs = _real_scheme(S, d, k)
    for phase in (0, 1):
        if phase == 1:
            cs.init_adaptive_combi_scheme(lmin + k, lmin)
            _check_inv_concrete(S, d, _offsets(lmin, cs.old_index_set), _offsets(lmin, cs.active_index_set), 'reuse-init')
        for step in range(n):
            act = sorted(_offsets(lmin, cs.active_index_set))
            t = act[S.choice('pick%d_%d' % (phase, step), len(act))]
            cs.update_adaptive_combi([lmin + x for x in t])
            if S.flag('query%d_%d' % (phase, step)):
                _check_coeffs_concrete(S, d, lmin, cs, _offsets(lmin, cs.get_index_set()), 'reuse')
        old = _offsets(lmin, cs.old_index_set)
        act2 = _offsets(lmin, cs.active_index_set)
        _check_inv_concrete(S, d, old, act2, 'reuse')
        _check_coeffs_concrete(S, d, lmin, cs, old | act2, 'reuse')


# ---------------------------------------------------------------------------------------------------
BOUNDS = {
    'quick': {'H2 step box K per d': {1: 5, 2: 4, 3: 2}, 'H3 coeff box K per d': {1: 5, 2: 3, 3: 1, 4: 1},
              'H1/H4 k per d': {1: 6, 2: 5, 3: 4, 4: 3, 5: 2}, 'H5 history (d,k,n)': [(2, 1, 3), (2, 2, 2), (3, 1, 2)],
              'H6 two histories on one object (d,k,n)': [(2, 1, 2), (2, 2, 2)],
              'lmin': 'symbolic, any integer >= 0'},
    'thorough': {'H2 step box K per d': {1: 7, 2: 5, 3: 3, 4: 2}, 'H3 coeff box K per d': {1: 7, 2: 4, 3: 2, 4: 1},
                 'H1/H4 k per d': {1: 8, 2: 7, 3: 6, 4: 4, 5: 3}, 'H5 history (d,k,n)': [(2, 1, 5), (2, 2, 4), (3, 1, 3), (3, 2, 3), (4, 1, 2)],
                 'H6 two histories on one object (d,k,n)': [(2, 1, 3), (2, 2, 2), (2, 2, 3), (3, 1, 2)],
                 'lmin': 'symbolic, any integer >= 0'},
}

META = {
    'functions': ['CombiScheme.init_adaptive_combi_scheme', 'CombiScheme.init_active_index_set',
                  'CombiScheme.init_old_index_set', 'CombiScheme.getGrids', 'CombiScheme.update_adaptive_combi',
                  'CombiScheme.is_refinable', 'CombiScheme._CombiScheme__refine_scheme', 'CombiScheme.getCombiScheme',
                  'CombiScheme.get_coefficients_to_index_set', 'CombiScheme.get_index_set', 'Utils.get_cross_product'],
    'bounds': BOUNDS,
    'assumptions': [
        'H2/H3 pre-states: representation invariant INV (old/active disjoint, backward neighbours >= lmin of every member in old, '
        'no active index with a forward neighbour in the set), set non-empty and contains lmin*1; H2 additionally: top layer of the box empty '
        '(so the step cannot leave the box) and lmax_adaptive >= every level present',
        'level tuples are lmin + constant; hashing by normal form (sound because two such values are equal iff their normal forms are)',
        'coefficients/levels are Python ints (z3 Int); no floating point involved',
    ],
    'outside': ['dimension > 4 (H2/H3) / > 5 (H1/H4)', 'index sets leaving the stated box', 'init_full_grid (documented as violating the invariants)'],
    'stubs': ['old_index_set / active_index_set replaced by a functional symbolic set (one z3 Bool per box cell) in H2/H3; real Python sets in H1/H4/H5'],
}


def jobs(tier):
    b = BOUNDS[tier]
    js = []
    for d, K in b['H2 step box K per d'].items():
        js.append(Job('H2-step[d=%d,K=%d]' % (d, K), h2_step, {'d': d, 'K': K}, validate=(7 if tier == 'quick' else 1),
                      expect_raises=()))
    for d, K in b['H3 coeff box K per d'].items():
        js.append(Job('H3-coeffs[d=%d,K=%d]' % (d, K), h3_coeffs, {'d': d, 'K': K}, validate=(11 if tier == 'quick' else 1)))
    for d, kmax in b['H1/H4 k per d'].items():
        for k in range(kmax + 1):
            js.append(Job('H1-init[d=%d,k=%d]' % (d, k), h1_init, {'d': d, 'k': k}))
            js.append(Job('H4-closed[d=%d,k=%d]' % (d, k), h4_closed, {'d': d, 'k': k}))
    for (d, k, n) in b['H5 history (d,k,n)']:
        js.append(Job('H5-history[d=%d,k=%d,n=%d]' % (d, k, n), h5_history, {'d': d, 'k': k, 'n': n},
                      validate=(13 if tier == 'quick' else 1)))
    for (d, k, n) in b['H6 two histories on one object (d,k,n)']:
        js.append(Job('H6-reuse[d=%d,k=%d,n=%d]' % (d, k, n), h6_reuse, {'d': d, 'k': k, 'n': n}, validate=(13 if tier == 'quick' else 3)))
    return js

MANIFEST_ENTRY = {
    'text': 'Bounded model checking of the real CombiScheme code: inductive step from an arbitrary invariant state with a symbolic target '
            '(solver decides all states of the box at once), solver-enumerated down-sets for the coefficient identity, symbolic lmin throughout. '
            'Holds for every lmin and every history that stays inside the stated box; nothing is claimed outside it.',
    'note': 'Trusted: z3, the LIFT proxies (int -> z3 Int), the symbolic-set stand-in for Python sets in H2/H3 (cross-checked by H5 on real sets and by '
            'concrete re-runs of solver models on the unshimmed code). Bounds: evidence.coverage.bounds.',
}
