"""C08 — local tensor quadrature grids honour their exactness and point contracts.

Symbolic global interval [a, a+h] (h>0, well scaled) and dyadic sub-boxes [a+t0*h, a+t1*h]; real
TrapezoidalGrid / SimpsonGrid (Grid.setCurrentArea, Grid1d.set_current_area, level_to_num_points_1d,
get_1D_level_points, weights, Grid.get_weights/getPoints, scalar-product integrator):
  * announced == returned number of points, all inside the sub-box
  * weights sum to the box volume; polynomials up to degree 1 (trapezoid) / 3 (Simpson, >= 3 points) exact
  * trapezoid, boundary off: exactly the points on the global boundary disappear, others keep point and weight
  * modified basis (boundary off): constants and linear functions stay exact
  * d = 2 tensorisation against an uninterpreted F: integrate == sum_ij w_i w_j F(x_i, y_j)
"""
import itertools
from fractions import Fraction

import numpy as np

from lift import core, lib
from lift.core import sym_and, sym_or, is_sym
from lift.run import Job

PROPERTY = 'C08'

TS = [Fraction(0), Fraction(1, 4), Fraction(1, 2), Fraction(3, 4), Fraction(1)]


def _G():
    from sparseSpACE import Grid
    return Grid


def _domain(S, name=''):
    a = S.real('a' + name)
    h = S.real('h' + name)
    S.assume(h > 0)
    # scaling precondition: isclose() (relative to magnitude) must not confuse an interior dyadic point with a domain end
    S.assume(abs(a) <= 1024 * h)
    return a, h


def _make(family, a, b, boundary, modified=False):
    G = _G()
    if family == 'trapezoid':
        return G.TrapezoidalGrid(a=a, b=b, boundary=boundary, modified_basis=modified)
    if family == 'simpson':
        return G.SimpsonGrid(a=a, b=b, boundary=boundary)
    raise AssertionError(family)


def one_d(S, family, level, boundary, t0, t1, modified=False, prior=False):
    a, h = _domain(S)
    b = a + h
    s, e = a + TS[t0] * h, a + TS[t1] * h
    grid = _make(family, [a], [b], boundary, modified)
    if prior:
        # the same grid object was used before on another (solver-chosen) sub-box and level, as the strategies do area after area
        subs = _subs()
        p0, p1 = subs[S.choice('prior_sub', len(subs))]
        l0 = (1 if not boundary else 0) + S.choice('prior_level', 3)
        grid.setCurrentArea([a + TS[p0] * h], [a + TS[p1] * h], [l0])
        grid.getPoints()
        grid.get_weights()
    grid.setCurrentArea([s], [e], [level])
    n_ann = int(grid.levelToNumPoints([level])[0])
    pts = [p[0] for p in grid.getPoints()]
    w = list(grid.get_weights())
    S.observe('n', [n_ann, len(pts), len(w)])
    S.prove(n_ann == len(pts), 'announced-equals-returned-number-of-points')
    S.prove(len(w) == len(pts), 'one-weight-per-point')
    S.prove(sym_and(*[sym_and(p >= s, p <= e) for p in pts]), 'points-inside-sub-box')
    S.prove(sym_and(*[pts[i] < pts[i + 1] for i in range(len(pts) - 1)]), 'points-strictly-increasing')
    full_n = 2 ** level + 1
    full_pts = [s + (e - s) * Fraction(i, full_n - 1) for i in range(full_n)]
    if family == 'trapezoid':
        hh = (e - s) / (full_n - 1)
        full_w = [hh / 2 if i in (0, full_n - 1) else hh for i in range(full_n)]
    else:
        hh = (e - s) / (full_n - 1)
        if full_n < 3:
            full_w = [hh / 2, hh / 2]
        else:
            full_w = [hh / 3 * (1 if i in (0, full_n - 1) else (4 if i % 2 == 1 else 2)) for i in range(full_n)]
    if boundary:
        S.prove(len(pts) == full_n and sym_and(*[pts[i] == full_pts[i] for i in range(min(len(pts), full_n))]), 'points-are-the-equidistant-points')
        S.prove(len(w) == full_n and sym_and(*[w[i] == full_w[i] for i in range(min(len(w), full_n))]), 'weights-are-the-rule-weights')
        S.prove(S.eq(sum(w), e - s), 'weights-sum-to-box-length')
        S.prove(S.eq(sum(wi * x for wi, x in zip(w, pts)), (e * e - s * s) / 2), 'degree-1-exact')
        if family == 'simpson' and full_n >= 3:
            S.prove(S.eq(sum(wi * x * x for wi, x in zip(w, pts)), (e ** 3 - s ** 3) / 3), 'degree-2-exact')
            S.prove(S.eq(sum(wi * x ** 3 for wi, x in zip(w, pts)), (e ** 4 - s ** 4) / 4), 'degree-3-exact')
    elif family == 'trapezoid':
        keep = [i for i in range(full_n) if not ((i == 0 and t0 == 0) or (i == full_n - 1 and t1 == len(TS) - 1))]
        if len(keep) == 0:
            keep_pts, keep_w = [], []
        else:
            keep_pts = [full_pts[i] for i in keep]
            keep_w = [full_w[i] for i in keep]
        if level == 0 and len(keep) == 0:
            # both ends of a level-0 box on the global boundary: the code documents a single midpoint instead
            S.note('level 0 on the full domain without boundary')
        S.prove(len(pts) == len(keep_pts) and sym_and(*[pts[i] == keep_pts[i] for i in range(min(len(pts), len(keep_pts)))]),
                'boundary-off-drops-exactly-the-global-boundary-points')
        if not modified:
            S.prove(len(w) == len(keep_w) and sym_and(*[w[i] == keep_w[i] for i in range(min(len(w), len(keep_w)))]),
                    'boundary-off-keeps-the-remaining-weights')
        elif len(pts) >= 1 and not (t0 == 0 and t1 == len(TS) - 1 and len(pts) == 1 and False):
            S.prove(S.eq(sum(w), e - s), 'modified-basis:weights-sum-to-box-length')
            if len(pts) >= 2:
                S.prove(S.eq(sum(wi * x for wi, x in zip(w, pts)), (e * e - s * s) / 2), 'modified-basis:degree-1-exact')


def two_d(S, family, levels, boundary, sub):
    a0, h0 = _domain(S, '0')
    a1, h1 = _domain(S, '1')
    a = [a0, a1]
    b = [a0 + h0, a1 + h1]
    (t00, t01), (t10, t11) = sub
    s = [a0 + TS[t00] * h0, a1 + TS[t10] * h1]
    e = [a0 + TS[t01] * h0, a1 + TS[t11] * h1]
    grid = _make(family, a, b, boundary)
    f = lib.make_function(S, 'F', 2, 1, cache=False)
    val = grid.integrate(f, list(levels), s, e)
    n_ann = [int(x) for x in grid.levelToNumPoints(list(levels))]
    pts = grid.getPoints()
    S.prove(n_ann[0] * n_ann[1] == len(pts), '2d:announced-equals-returned-number-of-points')
    S.prove(sym_and(*[sym_and(p[k] >= s[k], p[k] <= e[k]) for p in pts for k in range(2)]), '2d:points-inside-sub-box')
    xs = [list(grid.coordinate_array[k]) for k in range(2)]
    ws = [list(grid.weights[k]) for k in range(2)]
    want = 0
    for i, x in enumerate(xs[0]):
        for j, y in enumerate(xs[1]):
            want = want + ws[0][i] * ws[1][j] * f.F([x, y])[0]
    got = val[0] if hasattr(val, '__len__') else val
    S.observe('npts', len(pts))
    S.prove(S.eq(got, want), '2d:integrate-is-the-tensor-product-rule')
    if boundary:
        S.prove(S.eq(sum(grid.get_weights()), (e[0] - s[0]) * (e[1] - s[1])), '2d:weights-sum-to-box-volume')


def basis_local(S, family, p, levels, box, sub):
    """Local hierarchical Lagrange / B-spline grid used on a sub-box of its domain: announced number of points, all inside the sub-box,
    and every polynomial of degree <= min(p, n_k - 1) per dimension (symbolic coefficients) integrated exactly."""
    from harness import c10
    from sparseSpACE import Grid as G
    d = len(levels)
    w = box[1] - box[0]
    a = np.array([box[0]] * d, dtype=float)
    b = np.array([box[1]] * d, dtype=float)
    start = np.array([box[0] + sub[k % len(sub)][0] * w for k in range(d)], dtype=float)
    end = np.array([box[0] + sub[k % len(sub)][1] * w for k in range(d)], dtype=float)
    grid = (G.LagrangeGrid if family == 'lagrange' else G.BSplineGrid)(a, b, boundary=True, p=p)
    degs = [min(p, 2 ** l) for l in levels]
    coeffs = {e: S.real('c' + ''.join(map(str, e))) for e in itertools.product(*[range(g + 1) for g in degs])}
    f = c10._poly_function(S, d, max(degs), coeffs)
    val = grid.integrate(f, list(levels), start, end)
    got = val[0] if hasattr(val, '__len__') else val
    pts = [tuple(float(x) for x in q) for q in grid.getPoints()]
    S.observe('npts', len(pts))
    S.prove(len(pts) == int(np.prod(grid.levelToNumPoints(list(levels)))), 'basis:as-many-points-as-announced')
    S.prove(all(start[k] <= q[k] <= end[k] for q in pts for k in range(d)), 'basis:points-inside-the-sub-box')
    want = 0
    for e, c in coeffs.items():
        t = c
        for k in range(d):
            t = t * (end[k] ** (e[k] + 1) - start[k] ** (e[k] + 1)) / (e[k] + 1)
        want = want + t
    scale = 1 + sum(abs(c) for c in coeffs.values())
    S.prove(S.close(got, want, 1e-9, scale), 'basis:polynomials-up-to-min(p,n-1)-integrated-exactly-on-the-sub-box')


def _subs():
    return [(i, j) for i in range(len(TS)) for j in range(i + 1, len(TS)) if (TS[j] - TS[i]) in (Fraction(1), Fraction(1, 2), Fraction(1, 4))]


BOUNDS = {
    'quick': {'levels': [0, 4], 'sub-boxes': 'dyadic [t0,t1] with t in {0,1/4,1/2,3/4,1}, width 1, 1/2, 1/4', 'global interval': 'symbolic [a,a+h], h>0, |a| <= 1024 h',
              '2d levels': '(l0,l1) <= (2,2)'},
    'thorough': {'levels': [0, 6], 'sub-boxes': 'dyadic [t0,t1] with t in {0,1/4,1/2,3/4,1}, width 1, 1/2, 1/4', 'global interval': 'symbolic [a,a+h], h>0, |a| <= 1024 h',
                 '2d levels': '(l0,l1) <= (3,3)'},
}

META = {
    'functions': ['Grid.setCurrentArea', 'Grid1d.set_current_area', 'Grid.levelToNumPoints', 'Grid.levelToNumPointsWithBoundary', 'Grid.getPoints',
                  'Grid.get_weights', 'Grid.integrate', 'TrapezoidalGrid1D.level_to_num_points_1d', 'TrapezoidalGrid1D.get_1D_level_points',
                  'TrapezoidalGrid1D.get_1d_weight', 'TrapezoidalGrid1D.weight_composite_trapezoidal', 'SimpsonGrid1D.get_1D_level_weights',
                  'IntegratorArbitraryGridScalarProduct.__call__', 'math.isclose (symbolic version of the same formula)'],
    'bounds': BOUNDS,
    'assumptions': ['global interval symbolic with h > 0 and |a| <= 1024*h: on ill-scaled domains (|a| >= 1e9*h) math.isclose, which is relative to the magnitude '
                    'and not to the domain width, cannot tell an interior dyadic point from the domain end - documented precondition, see DESIGN.md',
                    'sub-boxes are dyadic parts of the global interval (what the refinement strategies produce)',
                    'boundary-off grids are requested with level >= 1 (level 0 = the two end points only; there the code returns the box midpoint, which is its documented full-domain special case)',
                    'Simpson is checked with boundary points (its no-boundary variant returns a weight vector that is only meaningful on the full domain)'],
    'outside': ['Clenshaw-Curtis, Leja, Gauss-Legendre families: nodes/weights come from cos, fmin, leggauss (transcendental / compiled optimisation) - no algebraic encoding',
                'local Lagrange / B-spline grids without boundary points (known finding C10-K1) and p > 3', 'd > 2 tensorisation'],
}

MANIFEST_ENTRY = {
    'text': 'Symbolic execution of the real local trapezoidal and Simpson grid code with the global interval as solver variables and dyadic sub-boxes: point counts, '
            'containment, weight sums, polynomial exactness and the boundary-off contract are decided for every interval at once (also for a grid object that was used on another sub-box before); 2-D tensorisation against an uninterpreted integrand; '
            'local Lagrange/B-spline grids on sub-boxes integrate polynomials with symbolic coefficients up to min(p, n-1) exactly.',
    'note': 'Trusted: z3, LIFT proxies/numpy facade, symbolic isclose (same formula). Clenshaw-Curtis, Leja and Gauss-Legendre clauses are not applicable (transcendental / compiled).',
}


def jobs(tier):
    lo, hi = BOUNDS[tier]['levels']
    js = []
    for level in range(lo, hi + 1):
        for (t0, t1) in _subs():
            for family, boundary, modified in (('trapezoid', True, False), ('trapezoid', False, False), ('trapezoid', False, True), ('simpson', True, False)):
                if not boundary and level == 0:
                    continue  # a level-0 grid consists of boundary points only; the strategies never request it without boundary
                js.append(Job('1d[%s,l=%d,%s%s,sub=%d-%d]' % (family, level, 'b' if boundary else 'nb', ',mod' if modified else '', t0, t1), one_d,
                              {'family': family, 'level': level, 'boundary': boundary, 't0': t0, 't1': t1, 'modified': modified}))
    for level in ((1, 2) if tier == 'quick' else (1, 2, 3)):
        for (t0, t1) in ((0, 2), (1, 3), (2, 4)):
            for family, boundary in (('trapezoid', True), ('trapezoid', False), ('simpson', True)):
                js.append(Job('1d-reuse[%s,l=%d,%s,sub=%d-%d]' % (family, level, 'b' if boundary else 'nb', t0, t1), one_d,
                              {'family': family, 'level': level, 'boundary': boundary, 't0': t0, 't1': t1, 'prior': True}, validate=5))
    lm = 2 if tier == 'quick' else 3
    subs2 = [((0, 4), (0, 4)), ((0, 2), (2, 4)), ((1, 2), (0, 4)), ((2, 4), (1, 3))]
    for l0 in range(0, lm + 1):
        for l1 in range(0, lm + 1):
            for k, sub in enumerate(subs2):
                for family, boundary in (('trapezoid', True), ('trapezoid', False), ('simpson', True)):
                    if tier == 'quick' and (l0 + l1 + k) % 2 == 1:
                        continue
                    if not boundary and 0 in (l0, l1):
                        continue
                    js.append(Job('2d[%s,l=(%d,%d),%s,sub=%d]' % (family, l0, l1, 'b' if boundary else 'nb', k), two_d,
                                  {'family': family, 'levels': (l0, l1), 'boundary': boundary, 'sub': sub}))
    q = tier == 'quick'
    n = 0
    for family, ps in (('lagrange', (1, 2, 3)), ('bspline', (1, 3))):
        for p in ps:
            for levels, sub in ([((1,), [(0.0, 1.0)]), ((2,), [(0.0, 0.5)]), ((3,), [(0.25, 0.5)]), ((2, 1), [(0.5, 1.0), (0.25, 0.5)])] if q else
                                [((1,), [(0.0, 1.0)]), ((1,), [(0.5, 1.0)]), ((2,), [(0.0, 0.5)]), ((3,), [(0.25, 0.5)]), ((4,), [(0.5, 0.75)]), ((2, 1), [(0.5, 1.0), (0.25, 0.5)]), ((2, 2), [(0.0, 0.5), (0.5, 0.75)])]):
                box = (0.0, 1.0) if n % 2 else (-3.0, 5.0)
                n += 1
                js.append(Job('basis[%s,p=%d,l=%s,sub=%s,box=%s]' % (family, p, 'x'.join(map(str, levels)), sub, box), basis_local,
                              {'family': family, 'p': p, 'levels': list(levels), 'box': list(box), 'sub': [list(x) for x in sub]}))
    return js
