"""C17 — density-estimation caching and size-dependent code paths are transparent (scoped to matrices, right-hand sides and the
interpolation kernels; the surpluses are a function of (R, b) through one linear solve, so equal systems give equal surpluses).

Rr   build_R_matrix_dimension_wise with reuse_old_values=True on a sequence of two grids of ONE operation object (the entry cache old_R is
     carried over) == the matrix built with reuse switched off, entry by entry; symbolic knot positions (the cache key str(overlap) is
     compared SEMANTICALLY: the solver explores every feasible hit/miss pattern) and refinement trees.
Key  soundness of the cache key on its own: two pairs of hats of a non-uniform grid with symbolic knots whose keys
     get_domain_overlap_width(...) agree have the same analytic entry calculate_R_value_analytically(...).
Bs   small-grid vs large-grid implementation of the right-hand side (calculate_B_dimension_wise on refinement trees, calculate_B on uniform
     grids), SYMBOLIC samples, solver-chosen class labels: identical vectors.  The size threshold is a literal (200) inside the
     functions: both implementations are run on the same small grid by executing the function's current code object with that one
     constant replaced (0 -> large-grid code, 10**9 -> small-grid code); nothing else of the function is touched.
Br   right-hand side with reuse of the previous refinement step (large-grid code only): step 1 on a tree, post_processing(), step 2 on a
     refinement of that tree by one point == right-hand side of step 2 with reuse switched off.  Symbolic samples (sorted_data / data
     bins / np.intersect1d run on them).
Ip   interpolate_points_component_grid (boundary off): small-grid vs large-grid implementation, SYMBOLIC surpluses and a symbolic
     evaluation point, uniform and dimension-wise component grids.
"""
import builtins
import itertools
from fractions import Fraction

import numpy as np

from lift import core, lib
from lift.core import sym_and, sym_or, sym_not, is_sym
from lift.run import Job

PROPERTY = 'C17'
MIN_GAP = Fraction(1, 16)
SMALL, LARGE = 10 ** 9, 0


def _GO():
    from sparseSpACE import GridOperation as GO
    return GO


# ------------------------------------------------------------------ semantic string keys (lifted runs only)
def _flatten(x, out, shape):
    if isinstance(x, (list, tuple, np.ndarray)):
        shape.append('(')
        for e in x:
            _flatten(e, out, shape)
        shape.append(')')
    else:
        out.append(x)
        shape.append('.')


class _Tok:
    """One element of a split key string; `float(tok)` (the library parses its own keys) gives the value back."""

    def __init__(self, v):
        self.v = v

    def __symvalue__(self):
        return self.v

    def __float__(self):
        return builtins.float(self.v)


class _KeyBody:
    def __init__(self, vals):
        self.vals = vals

    def split(self, sep):
        assert sep == ','
        return [_Tok(v) for v in self.vals]


class SymKey:
    """Stand-in for str(list of numbers) used as a dictionary key: two keys are equal iff the numbers are (decided by the solver, forking
    on feasibility), which is what equality of the printed floats means up to the 17 significant digits of repr()."""

    def __init__(self, x):
        self.vals, shape = [], []
        _flatten(x, self.vals, shape)
        self.shape = ''.join(shape)

    def __hash__(self):
        return hash(self.shape)

    def __eq__(self, other):
        if not isinstance(other, SymKey) or other.shape != self.shape:
            return False
        conds = []
        for a, b in zip(self.vals, other.vals):
            if is_sym(a) or is_sym(b):
                conds.append(a == b)
            elif a != b:
                return False
        return bool(sym_and(*conds)) if conds else True

    def __ne__(self, other):
        return not self.__eq__(other)

    def __getitem__(self, sl):
        assert isinstance(sl, slice) and sl.start == 1 and sl.stop == -1 and self.shape.count('(') == 1
        return _KeyBody(self.vals)

    def __repr__(self):
        return 'SymKey(%s)' % (self.vals,)


def sym_str(x=''):
    if isinstance(x, (list, tuple)) and x and isinstance(x[0], (list, tuple, int, float, core.SymNum, np.integer, np.floating)):
        return SymKey(x)
    return builtins.str(x)


EXTRA = [('sparseSpACE.GridOperation', 'str', sym_str)]


# ------------------------------------------------------------------ size threshold specialisation
class threshold:
    """Runs DensityEstimation.<names> with the literal size threshold 200 replaced by `value` (current code object, one constant changed)."""

    def __init__(self, value, names):
        self.value, self.names = value, names
        self.saved = {}

    def __enter__(self):
        DE = _GO().DensityEstimation
        for n in self.names:
            f = getattr(DE, n)
            f = getattr(f, '__func__', f)
            consts = f.__code__.co_consts
            if list(consts).count(200) != 1:
                raise RuntimeError('C17 harness: expected exactly one literal 200 (size threshold) in DensityEstimation.%s' % n)
            self.saved[n] = f.__code__
            f.__code__ = f.__code__.replace(co_consts=tuple(self.value if (c == 200 and type(c) is int) else c for c in consts))
        return self

    def __exit__(self, *a):
        DE = _GO().DensityEstimation
        for n, c in self.saved.items():
            f = getattr(DE, n)
            getattr(f, '__func__', f).__code__ = c
        return False


# ------------------------------------------------------------------ set-up helpers
def _dw_op(S, dim, reuse, lambd=0.0, classes=None, data=None):
    GO = _GO()
    from sparseSpACE.Grid import GlobalTrapezoidalGrid
    if data is None:
        data = np.zeros((1, dim))
    grid = GlobalTrapezoidalGrid(a=np.zeros(dim), b=np.ones(dim), boundary=False)
    op = GO.DensityEstimation(data, dim, grid=grid, masslumping=False, lambd=lambd, classes=classes, pre_scaled_data=True, print_output=False,
                              reuse_old_values=reuse)
    op.dimension_wise = True
    op.initialized = True
    op.max_levels = [1] * dim
    # the last two statements of DensityEstimation.initialize (the rest of it scales data and splits off validation data)
    op.sorted_data = [GO.np.argsort(op.data[:, d]) for d in range(op.data.shape[1])]
    return op


def _uni_op(S, dim, levelvec, classes=None, data=None):
    GO = _GO()
    if data is None:
        data = np.zeros((1, dim))
    op = GO.DensityEstimation(data, dim, masslumping=False, lambd=0.0, classes=classes, pre_scaled_data=True, print_output=False)
    op.grid.numPoints = 2 ** np.asarray(levelvec, dtype=int) - 1
    op.initialized = True
    return op


def _sym_stripes(S, npts, tag='h'):
    stripes, levels = [], []
    for d, n in enumerate(npts):
        if n == 1:
            stripes.append([0.0, 0.5, 1.0])
            levels.append([0, 1, 0])
            continue
        xs, acc = [], 0
        for i in range(n + 1):
            h = S.real('%s%d_%d' % (tag, d, i))
            S.assume(h >= MIN_GAP)
            acc = acc + h
            xs.append(acc)
        S.assume(acc == 1)
        stripes.append([0.0] + xs[:-1] + [1.0])
        levels.append([0] + [1] * n + [0])
    return stripes, levels


def _tree_stripes(S, npts, tag='tree'):
    stripes, levels = [], []
    for d, n in enumerate(npts):
        lv = lib.tree_levels(S, '%s%d' % (tag, d), n + 2)
        stripes.append([float(c) for c in lib.dyadic_coords(lv, 0.0, 1.0)])
        levels.append(list(lv))
    return stripes, levels


def _coarser(S, stripes, levels):
    """A grid the given one refines by one point: one leaf (inner point whose level exceeds both neighbours') of one dimension removed."""
    cands = []
    for d, lv in enumerate(levels):
        if len(lv) <= 3:
            continue
        for i in range(1, len(lv) - 1):
            if lv[i] > lv[i - 1] and lv[i] > lv[i + 1]:
                cands.append((d, i))
    d, i = cands[S.choice('leaf', len(cands))]
    s1 = [list(s) for s in stripes]
    l1 = [list(l) for l in levels]
    del s1[d][i]
    del l1[d][i]
    return s1, l1


def _samples(S, nsamples, dim):
    xs = [[S.real('x%d_%d' % (m, k)) for k in range(dim)] for m in range(nsamples)]
    for row in xs:
        for v in row:
            S.assume(v >= 0)
            S.assume(v <= 1)
    return xs


def _same(S, got, want, label, tol=1e-12):
    S.prove(np.shape(got) == np.shape(want), label + ':same-shape')
    ok = True
    for g, w in zip(np.asarray(got, dtype=object).flat, np.asarray(want, dtype=object).flat):
        ok = sym_and(ok, S.eq(g, w, 1.0, tol))
    S.prove(ok, label)


# ------------------------------------------------------------------ Rr
def rreuse(S, npts, symbolic, two_steps):
    dim = len(npts)
    lam = S.real('lambda')
    S.assume(lam >= 0)
    if S.lifted:
        core.CTX().abs_implied = True
    if symbolic:
        st2, lv2 = _sym_stripes(S, npts)
    else:
        st2, lv2 = _tree_stripes(S, npts)
    op_r = _dw_op(S, dim, True, lambd=lam)
    op_p = _dw_op(S, dim, False, lambd=lam)
    if two_steps:
        if symbolic:
            # an earlier grid of the same operation object with other (symbolic) knots: whatever it left in the cache must not matter
            st1, lv1 = _sym_stripes(S, [max(n - 1, 1) for n in npts], tag='g')
        else:
            st1, lv1 = _coarser(S, st2, lv2)
        R1 = op_r.build_R_matrix_dimension_wise(st1, lv1)
        _same(S, R1, op_p.build_R_matrix_dimension_wise(st1, lv1), 'rreuse:first-grid-matrix-equals-matrix-without-reuse')
    R2 = op_r.build_R_matrix_dimension_wise(st2, lv2)
    S.observe('cache entries', len(op_r.old_R))
    _same(S, R2, op_p.build_R_matrix_dimension_wise(st2, lv2), 'rreuse:matrix-with-reused-entries-equals-matrix-without-reuse')
    # and a second build on the same grid (everything served from the cache)
    R3 = op_r.build_R_matrix_dimension_wise(st2, lv2)
    _same(S, R3, R2, 'rreuse:rebuilding-from-the-cache-changes-nothing')


def keysound(S, dim):
    """Two pairs of hats (each pair on its own symbolic 1-D knot vectors per dimension); equal keys => equal entries."""
    if S.lifted:
        core.CTX().abs_implied = True
    op = _dw_op(S, dim, True)

    def pair(tag):
        pi, di, pj, dj = [], [], [], []
        for d in range(dim):
            # five knots x0 < x1 < x2 < x3 < x4 ; hat i sits on x1 or x2, hat j on x2 or x3 (same point, neighbours, or disjoint supports)
            xs, acc = [], 0
            for i in range(5):
                h = S.real('%s%d_%d' % (tag, d, i))
                S.assume(h >= MIN_GAP)
                S.assume(h <= 1)
                acc = acc + h
                xs.append(acc)
            i = 1 + S.choice('%si%d' % (tag, d), 2)
            j = 2 + S.choice('%sj%d' % (tag, d), 2)
            pi.append(xs[i]); di.append((xs[i - 1], xs[i + 1]))
            pj.append(xs[j]); dj.append((xs[j - 1], xs[j + 1]))
        return pi, di, pj, dj

    A = pair('a')
    B = pair('b')
    ka = op.get_domain_overlap_width(*A)
    kb = op.get_domain_overlap_width(*B)
    same_key = sym_and(*[x == y for x, y in zip(list(ka[0]) + list(ka[1]), list(kb[0]) + list(kb[1]))])
    S.assume(same_key)
    va = op.calculate_R_value_analytically(*A)
    vb = op.calculate_R_value_analytically(*B)
    S.prove(S.eq(va, vb, 1.0, 1e-12), 'key:equal-cache-keys-imply-equal-matrix-entries')


# ------------------------------------------------------------------ Bs
def _classes(S, nsamples, with_classes):
    if not with_classes:
        return None
    # class weights as DataSet.split_one_vs_others produces them: 1 for the class itself, a negative weight in [-1, 0) for the others
    # (-1 balanced, -1/4 stands for an unbalanced one-vs-others split); concrete values chosen by the solver keep the obligations linear
    W = (1.0, -1.0, -0.25)
    if nsamples > 1:
        # several samples: two patterns per sample (the first one carries the unbalanced weight) - bounds the number of labellings
        return np.array([((1.0, -0.25) if m == 0 else (1.0, -1.0))[S.choice('cls%d' % m, 2)] for m in range(nsamples)])
    return np.array([W[S.choice('cls%d' % m, len(W))] for m in range(nsamples)])


def bsize_dw(S, npts, nsamples, with_classes):
    dim = len(npts)
    stripes, levels = _tree_stripes(S, npts)
    xs = _samples(S, nsamples, dim)
    data = np.array(xs, dtype=object if S.lifted else float)
    classes = _classes(S, nsamples, with_classes)
    with threshold(SMALL, ['calculate_B_dimension_wise']):
        b_small = _dw_op(S, dim, False, classes=classes, data=data).calculate_B_dimension_wise(data, stripes, levels)
    with threshold(LARGE, ['calculate_B_dimension_wise']):
        b_large = _dw_op(S, dim, False, classes=classes, data=data).calculate_B_dimension_wise(data, stripes, levels)
    _same(S, b_large, b_small, 'bsize:large-grid-right-hand-side-equals-small-grid-right-hand-side-(dimension-wise)')


def bsize_uniform(S, levelvec, nsamples, with_classes):
    dim = len(levelvec)
    xs = _samples(S, nsamples, dim)
    data = np.array(xs, dtype=object if S.lifted else float)
    classes = _classes(S, nsamples, with_classes)
    with threshold(SMALL, ['calculate_B']):
        b_small = _uni_op(S, dim, levelvec, classes=classes, data=data).calculate_B(data, list(levelvec))
    with threshold(LARGE, ['calculate_B']):
        b_large = _uni_op(S, dim, levelvec, classes=classes, data=data).calculate_B(data, list(levelvec))
    _same(S, b_large, b_small, 'bsize:large-grid-right-hand-side-equals-small-grid-right-hand-side-(uniform)')


def bsize_uniform_two(S, lv1, lv2, nsamples, with_classes):
    """ONE operation object evaluates the large-grid right-hand side of two different component grids one after the other (as the
    combination technique does); each must equal the small-grid right-hand side of a fresh object."""
    dim = len(lv1)
    xs = _samples(S, nsamples, dim)
    data = np.array(xs, dtype=object if S.lifted else float)
    classes = _classes(S, nsamples, with_classes)
    with threshold(LARGE, ['calculate_B']):
        op = _uni_op(S, dim, lv1, classes=classes, data=data)
        got = []
        for lv in (lv1, lv2, lv1):
            op.grid.numPoints = 2 ** np.asarray(lv, dtype=int) - 1
            got.append(op.calculate_B(data, list(lv)))
    with threshold(SMALL, ['calculate_B']):
        want = [_uni_op(S, dim, lv, classes=classes, data=data).calculate_B(data, list(lv)) for lv in (lv1, lv2, lv1)]
    for n, (g, w) in enumerate(zip(got, want)):
        _same(S, g, w, 'bsize:large-grid-right-hand-side-of-grid-%d-on-a-reused-object-equals-small-grid-right-hand-side' % (n + 1))


# ------------------------------------------------------------------ Br
def breuse(S, npts, nsamples, with_classes):
    dim = len(npts)
    st2, lv2 = _tree_stripes(S, npts)
    st1, lv1 = _coarser(S, st2, lv2)
    xs = _samples(S, nsamples, dim)
    data = np.array(xs, dtype=object if S.lifted else float)
    classes = _classes(S, nsamples, with_classes)
    with threshold(LARGE, ['calculate_B_dimension_wise']):
        op_r = _dw_op(S, dim, True, classes=classes, data=data)
        b1 = op_r.calculate_B_dimension_wise(data, st1, lv1)
        op_r.surpluses = {tuple([1] * dim): np.zeros(1)}
        op_r.post_processing()
        S.observe('old b vectors', len(op_r.old_B))
        b2 = op_r.calculate_B_dimension_wise(data, st2, lv2)
        op_p = _dw_op(S, dim, False, classes=classes, data=data)
        _same(S, b1, op_p.calculate_B_dimension_wise(data, st1, lv1), 'breuse:first-step-equals-right-hand-side-without-reuse')
        want = op_p.calculate_B_dimension_wise(data, st2, lv2)
    _same(S, b2, want, 'breuse:right-hand-side-with-reused-old-values-equals-right-hand-side-without-reuse')


# ------------------------------------------------------------------ Ip
def _float_separated(S, x, stripes):
    """The large-grid hat evaluation uses ceil(x - p + 1e-30) as the indicator of x >= p.  For doubles in the unit cube and grid coordinates
    p >= 2**-20 a non-zero difference x - p has magnitude >= 2**-73 > 1e-30, so the indicator is exact; over the reals there is a sliver
    p - 1e-30 < x < p.  The evaluation point is assumed outside these slivers (representability of the inputs as doubles)."""
    eps = Fraction(1, 2 ** 60)
    for k, xs in enumerate(stripes):
        for p in xs:
            S.assume(sym_or(x[k] >= p, x[k] <= Fraction(p) - eps))


class _CG:
    def __init__(self, levelvector):
        self.levelvector = tuple(levelvector)
        self.coefficient = 1


def _eval_point(S, stripes, symdim):
    """Evaluation point: symbolic in every dimension (symdim None) or symbolic in one dimension with the other coordinates chosen by the
    solver among the grid coordinates and cell midpoints (keeps the hat products linear in the one symbolic coordinate)."""
    dim = len(stripes)
    if symdim is None:
        x = _samples(S, 1, dim)[0]
    else:
        x = []
        for k in range(dim):
            if k == symdim:
                v = S.real('x0_%d' % k)
                S.assume(v >= 0)
                S.assume(v <= 1)
            else:
                xs = [Fraction(c) for c in stripes[k]]
                cands = sorted(set(xs + [(a + b) / 2 for a, b in zip(xs, xs[1:])]))
                v = float(cands[S.choice('x0_%d_pos' % k, len(cands))])
            x.append(v)
    _float_separated(S, x, [stripes[k] if (symdim is None or k == symdim) else [] for k in range(dim)])
    return [x]


def interp_dw(S, npts, symbolic, symdim=None):
    dim = len(npts)
    stripes, levels = _sym_stripes(S, npts) if symbolic else _tree_stripes(S, npts)
    n = int(np.prod(npts))
    alphas = [S.real('alpha%d' % i) for i in range(n)]
    x = _eval_point(S, stripes, symdim)
    pts = np.array(x, dtype=object if S.lifted else float)
    lv = tuple([1] * dim)
    res = []
    for T in (SMALL, LARGE):
        op = _dw_op(S, dim, False)
        op.surpluses = {lv: np.array(alphas, dtype=object if S.lifted else float)}
        op.grid.set_grid([list(s) for s in stripes], [list(l) for l in levels])
        with threshold(T, ['interpolate_points_component_grid']):
            res.append(op.interpolate_points_component_grid(_CG(lv), [np.array(s, dtype=object if S.lifted else float) for s in stripes], pts))
    _same(S, res[1], res[0], 'interp:large-grid-interpolation-equals-small-grid-interpolation-(dimension-wise)')


def interp_dw_two(S, npts, symdim=None):
    """ONE operation object interpolates with the large-grid code on a first refinement tree and then on a second one (a refinement of the first,
    as in consecutive refinement steps); the second result equals the small-grid interpolation of a fresh object."""
    dim = len(npts)
    st2, lv2 = _tree_stripes(S, npts)
    st1, lv1 = _coarser(S, st2, lv2)
    n2 = int(np.prod(npts))
    n1 = int(np.prod([len(s) - 2 for s in st1]))
    alphas1 = [S.real('beta%d' % i) for i in range(n1)]
    alphas2 = [S.real('alpha%d' % i) for i in range(n2)]
    x = _eval_point(S, st2, symdim)
    pts = np.array(x, dtype=object if S.lifted else float)
    lv = tuple([1] * dim)

    def interp(op, T, stripes, levels, alphas):
        op.surpluses = {lv: np.array(alphas, dtype=object if S.lifted else float)}
        op.grid.set_grid([list(s) for s in stripes], [list(l) for l in levels])
        with threshold(T, ['interpolate_points_component_grid']):
            return op.interpolate_points_component_grid(_CG(lv), [np.array(s, dtype=object if S.lifted else float) for s in stripes], pts)

    op = _dw_op(S, dim, False)
    interp(op, LARGE, st1, lv1, alphas1)
    got = interp(op, LARGE, st2, lv2, alphas2)
    want = interp(_dw_op(S, dim, False), SMALL, st2, lv2, alphas2)
    _same(S, got, want, 'interp:large-grid-interpolation-on-a-second-grid-of-the-same-object-equals-small-grid-interpolation')


def interp_uniform(S, levelvec, symdim=None):
    dim = len(levelvec)
    n = int(np.prod([2 ** l - 1 for l in levelvec]))
    alphas = [S.real('alpha%d' % i) for i in range(n)]
    x = _eval_point(S, [[Fraction(i, 2 ** l) for i in range(2 ** l + 1)] for l in levelvec], symdim)
    pts = np.array(x, dtype=object if S.lifted else float)
    lv = tuple(levelvec)
    res = []
    for T in (SMALL, LARGE):
        op = _uni_op(S, dim, levelvec)
        op.surpluses = {lv: np.array(alphas, dtype=object if S.lifted else float)}
        with threshold(T, ['interpolate_points_component_grid']):
            res.append(op.interpolate_points_component_grid(_CG(lv), None, pts))
    _same(S, res[1], res[0], 'interp:large-grid-interpolation-equals-small-grid-interpolation-(uniform)')


# ------------------------------------------------------------------ jobs
BOUNDS = {
    'quick': {'dimension': '<= 2', 'interior points per dimension': '<= 3 (symbolic knots), <= 4 (refinement trees)', 'samples': '<= 2', 'refinement steps with reuse': 2},
    'thorough': {'dimension': '<= 3', 'interior points per dimension': '<= 4 (symbolic knots), <= 6 (refinement trees)', 'samples': '<= 3', 'refinement steps with reuse': 2},
}

META = {
    'functions_encoded': ['GridOperation.DensityEstimation.build_R_matrix_dimension_wise', 'get_domain_overlap_width', 'calculate_R_value_analytically',
                          'get_hat_domain', 'get_hat_domain_for_every_grid_point_vectorized', 'calculate_B_dimension_wise', 'calculate_B', 'find_closest_old_B',
                          'find_data_in_domain', 'find_enclosing_bin', 'post_processing', 'get_neighbors_optimized', 'get_grid_points_with_support', 'take_closest',
                          'get_hats_in_support', 'hat_function_in_support_vectorized', 'hat_function_in_support_completely_vectorized',
                          'hat_function_non_symmetric', 'hat_function_non_symmetric_vectorized', 'hat_function_non_symmetric_completely_vectorized',
                          'interpolate_points_component_grid'],
    'bounds': BOUNDS,
    'outside_claim': ['equality of whole refinement runs through the adaptive driver (error estimates, refinement decisions): only matrices, right-hand sides and interpolation '
                      'kernels are compared; equal linear systems give equal surpluses through the one linear solve',
                      'grids with 200 or more points as such: the size-dependent implementations are compared on small grids by replacing the literal threshold',
                      'numeric_calculation=True (nquad entries)', 'mass lumping (no cache is used)', 'boundary=True grids (the generic interpolation of GridOperation is used)',
                      'floating-point rounding; cache keys are compared as real numbers, not as 17-digit decimal strings'],
    'stubs': ['str(list of numbers) used as dictionary key -> SymKey (semantic equality decided by the solver; lifted runs only)',
              'size threshold literal 200 -> 0 / 10**9 in the function\'s own code object (lifted and concrete runs)',
              'DensityEstimation.initialize replaced by its last two statements (sorted_data); data is already in the unit cube'],
}

MANIFEST_ENTRY = {
    'text': 'Scoped to what decides the property: with reuse_old_values the system matrix (entry cache carried over two grids, cache keys compared semantically by the solver on symbolic '
            'knots) and the right-hand side of the second refinement step (symbolic samples) equal those computed without reuse; the small-grid and large-grid implementations of the '
            'right-hand side and of the interpolation agree on the same grid (size threshold literal replaced in the function\'s own code object). Equality of whole adaptive runs is not '
            'executed; surpluses follow from (R, b) by one linear solve.',
    'note': 'Trusted: z3, LIFT proxies/numpy facade, SymKey stand-in for str(list) dictionary keys, the threshold replacement. Evaluation points are assumed representable as doubles '
            '(not within 2**-60 below a grid coordinate; the library uses ceil(x - p + 1e-30) as an indicator). Bounds and what is outside: evidence.coverage.',
}


def jobs(tier):
    q = tier == 'quick'
    js = []
    kw = dict(validate=(5 if q else 2), timeout_ms=60000, budget_s=(600 if q else 3000), extra_shims=EXTRA)
    # symbolic knots: products of knot differences make the d = 2 obligations non-linear; (2,2) and the two-grid history on 3 symbolic knots do not
    # finish within the cap (probed: > 300 s) and are outside the bound.  Refinement trees have concrete geometry: there the solver only
    # enumerates the trees and the removed leaf.
    rr = [((2,), True, (False, True)), ((3,), True, (False,)), ((2, 1), True, (False, True)), ((3,), False, (False, True)), ((4,), False, (False, True)),
          ((3, 2), False, (False, True))]
    if not q:
        rr += [((3,), True, (True,)), ((4,), True, (False,)), ((5,), False, (False, True)), ((6,), False, (False, True)), ((3, 3), False, (False, True)),
               ((2, 2, 2), False, (False, True))]
    for npts, symb, twos in rr:
        for two in twos:
            js.append(Job('rreuse[n=%s,%s,%s]' % ('x'.join(map(str, npts)), 'symgeom' if symb else 'trees', 'two-grids' if two else 'one-grid'), rreuse,
                          {'npts': list(npts), 'symbolic': symb, 'two_steps': two}, **dict(kw, budget_s=(300 if q else 3000))))
    js.append(Job('key[d=1]', keysound, {'dim': 1}, **kw))
    for npts, ns in ([((2,), 1), ((3,), 1), ((3,), 2), ((2, 1), 1), ((2, 2), 1)] if q else [((2,), 1), ((3,), 2), ((5,), 1), ((4,), 2), ((2, 1), 2), ((2, 2), 1), ((3, 2), 1), ((2, 2), 2)]):
        for wc in (False, True):
            js.append(Job('bsize-dw[n=%s,samples=%d,%s]' % ('x'.join(map(str, npts)), ns, 'classes' if wc else 'plain'), bsize_dw,
                          {'npts': list(npts), 'nsamples': ns, 'with_classes': wc}, **kw))
    for lv, ns in ([((2,), 1), ((2,), 2), ((2, 1), 1), ((2, 2), 1)] if q else [((2,), 2), ((3,), 2), ((2, 1), 2), ((2, 2), 1), ((2, 2), 2), ((3, 2), 1), ((2, 2, 1), 1)]):
        for wc in (False, True):
            js.append(Job('bsize-uniform[l=%s,samples=%d,%s]' % ('x'.join(map(str, lv)), ns, 'classes' if wc else 'plain'), bsize_uniform,
                          {'levelvec': list(lv), 'nsamples': ns, 'with_classes': wc}, **kw))
    for lv1, lv2, ns in ([((2,), (3,), 1), ((2, 1), (1, 2), 1), ((2, 2), (2, 1), 1)] if q else [((2,), (3,), 2), ((2, 1), (1, 2), 2), ((2, 2), (2, 1), 1), ((3, 2), (2, 3), 1), ((2, 2, 1), (1, 2, 2), 1)]):
        for wc in (False, True):
            js.append(Job('bsize-uniform-two[l=%s+%s,samples=%d,%s]' % ('x'.join(map(str, lv1)), 'x'.join(map(str, lv2)), ns, 'classes' if wc else 'plain'), bsize_uniform_two,
                          {'lv1': list(lv1), 'lv2': list(lv2), 'nsamples': ns, 'with_classes': wc}, **kw))
    for npts, ns in ([((2,), 1), ((3,), 1), ((3,), 2), ((2, 1), 1), ((2, 2), 1)] if q else [((2,), 1), ((3,), 2), ((4,), 2), ((5,), 1), ((2, 1), 2), ((2, 2), 1), ((3, 2), 1), ((2, 2), 2)]):
        for wc in (False, True):
            js.append(Job('breuse[n=%s,samples=%d,%s]' % ('x'.join(map(str, npts)), ns, 'classes' if wc else 'plain'), breuse,
                          {'npts': list(npts), 'nsamples': ns, 'with_classes': wc}, **kw))
    # refinement trees only: the large-grid code hashes grid coordinates (hat_support_cache), which rules out symbolic knots
    for npts, symb in ([((2,), False), ((3,), False), ((4,), False), ((2, 2), False), ((3, 2), False)] if q else
                       [((2,), False), ((3,), False), ((5,), False), ((6,), False), ((3, 3), False), ((4, 3), False), ((2, 2, 2), False)]):
        for sd in ([None] if len(npts) == 1 else range(len(npts))):
            js.append(Job('interp-dw[n=%s,%s,x=%s]' % ('x'.join(map(str, npts)), 'symgeom' if symb else 'trees', 'sym' if sd is None else 'sym-in-dim-%d' % sd), interp_dw,
                          {'npts': list(npts), 'symbolic': symb, 'symdim': sd}, **kw))
    for npts in ([(3,), (4,), (3, 2)] if q else [(3,), (4,), (5,), (3, 2), (3, 3)]):
        for sd in ([None] if len(npts) == 1 else range(len(npts))):
            js.append(Job('interp-dw-two[n=%s,x=%s]' % ('x'.join(map(str, npts)), 'sym' if sd is None else 'sym-in-dim-%d' % sd), interp_dw_two, {'npts': list(npts), 'symdim': sd}, **kw))
    for lv in ([(1,), (2,), (3,), (2, 1), (2, 2)] if q else [(1,), (2,), (3,), (4,), (2, 1), (2, 2), (3, 2), (2, 2, 1)]):
        for sd in ([None] if len(lv) == 1 else range(len(lv))):
            js.append(Job('interp-uniform[l=%s,x=%s]' % ('x'.join(map(str, lv)), 'sym' if sd is None else 'sym-in-dim-%d' % sd), interp_uniform, {'levelvec': list(lv), 'symdim': sd}, **kw))
    return js
