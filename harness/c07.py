"""C07 — extend-split areas tile the domain and each carries a valid local combination.

H  real performSpatiallyAdaptiv loop of SpatiallyAdaptiveExtendScheme on an uninterpreted F with solver-chosen error /
   extend-vs-split / twin-error decisions (P3); after every refine() and at the end:
     leaf areas are boxes with pairwise disjoint interiors whose volumes add up to the domain, coarsening values >= 0,
     every evaluation point (vertices, face and cell centres of all leaves) is assigned to exactly one leaf that contains it,
     per area the computed component grids have coefficient sum 1 at every area grid point, and the real __call__ reproduces F there.
P  coarsen_grid / is_already_calculated / add_level for an area with SYMBOLIC coarsening value c, 0 <= c <= lmax - lmin:
     over the grids with do_compute the coefficients sum to 1 at every point of the area's grids (the solver covers the whole
     range of c at once; paths split where the code's behaviour changes).
"""
import itertools

import numpy as np

from lift import core, lib
from lift.core import sym_and, is_sym
from lift.run import Job
from harness import es

PROPERTY = 'C07'


def history(S, d, lmin, lmax, box, boundary, version, nrbe, auto, single_dim, pool, cap):
    f = lib.make_function(S, 'F', d, 1)

    def after(sa, a, b):
        es.tiling_goals(S, sa, d, [float(x) for x in a], [float(x) for x in b], 'round')

    sa, op, a, b, res = es.run_es(S, d, lmin, lmax, box, boundary, version, nrbe, auto, single_dim, pool, cap, f, after_round=after)
    es.tiling_goals(S, sa, d, [float(x) for x in a], [float(x) for x in b], 'final')
    # without boundary points the library interpolates on the hull of the interior points only (points next to the domain boundary are
    # out of bounds for scipy.interpn); the property does not quantify over the boundary flag, so only the coefficient sums are checked there
    es.local_combination_goals(S, sa, d, f, 'final', interp=boundary)
    S.observe('areas', len(es.leaves(sa)))
    S.observe('lmax', [int(x) for x in sa.lmax])
    S.observe('points', [int(x) for x in res[6]])


def coarsen(S, d, lmin, lmax, version, lmax0):
    """One area, symbolic coarsening value."""
    ES, CELL, GO, G, EC, RO, RC = es.mods()
    f = lib.make_function(S, 'F', d, 1)
    a = np.zeros(d)
    b = np.ones(d)
    grid = G.TrapezoidalGrid(a=a, b=b, boundary=True)
    op = GO.Integration(f=f, grid=grid, dim=d)
    sa = ES.SpatiallyAdaptiveExtendScheme(a, b, version=version, operation=op)
    sa.lmin = [lmin] * d
    sa.lmax = [lmax] * d
    sa.print_output = False
    from sparseSpACE.combiScheme import CombiScheme
    sa.combischeme = CombiScheme(d)
    sa.scheme = sa.combischeme.getCombiScheme(lmin, lmax, do_print=False)
    c = S.int('coarsening')
    S.assume(c >= 0)
    S.assume(c <= lmax - lmax0)  # an area never lags behind by more than the number of global level raises
    area = RO.RefinementObjectExtendSplit(np.zeros(d), np.ones(d) * 0.5, grid, coarseningValue=c)
    count = {}
    ncomp = 0
    for cg in sa.scheme:
        lv, do_compute = sa.coarsen_grid(cg.levelvector, area)
        lv = [int(x) for x in lv]
        S.prove(all(x >= 0 for x in lv), 'coarsen:levels-never-below-lmin')
        if not do_compute:
            continue
        ncomp += 1
        grid.setCurrentArea(area.start, area.end, lv)
        for p in grid.getPoints():
            p = tuple(float(x) for x in p)
            count[p] = count.get(p, 0) + cg.coefficient
    S.observe('computed', ncomp)
    S.prove(ncomp > 0, 'coarsen:at-least-one-grid-computed')
    S.prove(all(v == 1 for v in count.values()), 'coarsen:coefficient-sum-one-at-every-point-of-the-area')


BOUNDS = {
    'quick': {'history': 'd=2, (lmin,lmax)=(1,2): versions 0,1,2 x refinements-before-extend 1,2; automatic extend/split; single-dimension splitting; boundary on/off; up to 60 points, 2 scripted decisions per round',
              'coarsen_grid': 'd in {2,3}, lmin in {1,2}, lmax - lmin <= 3, versions 0,1,2, symbolic coarsening 0..lmax-lmax0 with lmax0 in {lmin+1..lmax}'},
    'thorough': {'history': 'd=2 (1,2) up to 110 points, (1,3)/(2,3) up to 130 points; d=3 (1,2) up to 160 points; same option grid',
                 'coarsen_grid': 'd in {2,3,4}, lmin in {1,2,3}, lmax - lmin <= 4'},
}

META = {
    'functions': ['SpatiallyAdaptiveExtendScheme.initialize_refinement/coarsen_grid/do_refinement/interpolate_points/get_points_assignement_to_areas/get_points_in_areas_recursive/'
                  'get_points_component_grid/evaluate_operation_area', 'RefinementObjectExtendSplit.refine/split_area_arbitrary_dim/split_area_single_dim/update/add_level/'
                  'is_already_calculated/contains/subset_of_contained_points/get_split_dims', 'RefinementContainer.refine/update_values/apply_remove', 'SpatiallyAdaptivBase.refine/'
                  'performSpatiallyAdaptiv/evaluate_operation/compute_solutions', 'Integration.evaluate_area/process_removed_objects', 'TrapezoidalGrid (local)', 'StandardCombi.__call__'],
    'bounds': BOUNDS,
    'assumptions': ['P3 stand-ins (documented stubs): calc_error of the strategy (parent estimates) returns solver-chosen 0/1 errors; compute_benefits_for_operations returns a solver-chosen '
                    'extend-or-split preference; get_twin_error returns arbitrary non-negative values', 'domains [0,1]^d, [-3,6]^d and [0.3,0.9]^d; geometry concrete',
                    'coarsen_grid harness: 0 <= coarsening <= lmax - lmax0'],
    'outside': ['coarsening version 3', 'no_initial_splitting (the code asserts False)', 'd >= 4 histories', 'the real error/benefit estimates (nonlinear in F)'],
}

MANIFEST_ENTRY = {
    'text': 'The real extend-split driver runs on an uninterpreted function with solver-chosen refinement/extend/split decisions; tiling, point assignment, coarsening bounds and the '
            'local combination property are checked after every round; coarsen_grid is additionally executed with a symbolic coarsening value so that the whole range is decided at once.',
    'note': 'Trusted: z3, LIFT proxies/numpy facade, interpn reference stub; P3 stand-ins for the error/benefit estimators are listed in evidence.assumptions.',
}


def jobs(tier):
    q = tier == 'quick'
    js = []
    cfgs = []
    for version in (0, 1, 2):
        for nrbe in (1, 2):
            cfgs.append((2, 1, 2, (0.0, 1.0) if (version + nrbe) % 2 else (-3.0, 6.0), True, version, nrbe, False, False))
    cfgs.append((2, 1, 2, (0.0, 1.0), False, 0, 1, False, False))
    cfgs.append((2, 1, 2, (0.0, 1.0), True, 0, 1, True, False))
    cfgs.append((2, 1, 2, (0.0, 1.0), True, 1, 1, True, False))
    cfgs.append((2, 1, 2, (0.0, 1.0), True, 0, 1, False, True))
    # a domain whose bounds are not dyadic rationals: the lifted run treats the floats 0.3, 0.9 as the exact rationals they denote; every path is
    # additionally validated on the real float code (validate=1), where the areas must still tile the domain without gaps or overlaps
    cfgs.append((2, 1, 2, (0.3, 0.9), True, 0, 1, False, False))
    if not q:
        cfgs += [(2, 1, 3, (0.0, 1.0), True, v, 1, False, False) for v in (0, 1, 2)]
        cfgs += [(2, 2, 3, (0.0, 1.0), True, v, 1, False, False) for v in (0, 1, 2)]
        cfgs += [(3, 1, 2, (0.0, 1.0), True, v, 1, False, False) for v in (0, 1)]
        cfgs += [(2, 1, 2, (0.0, 1.0), False, v, 2, False, False) for v in (1, 2)]
    for (d, lmin, lmax, box, boundary, version, nrbe, auto, sd) in cfgs:
        cap = {(2, 2): 60 if q else 110, (2, 3): 130, (3, 2): 160}[(d, lmax)]
        if not boundary:
            cap = cap // 2
        if auto:
            cap = 36 if q else 60
        if sd:
            cap = 26 if q else 40
        js.append(Job('hist[d=%d,l=%d-%d,v=%d,nrbe=%d,%s%s%s,box=%s]' % (d, lmin, lmax, version, nrbe, 'b' if boundary else 'nb', ',auto' if auto else '', ',single' if sd else '', box),
                      history, {'d': d, 'lmin': lmin, 'lmax': lmax, 'box': list(box), 'boundary': boundary, 'version': version, 'nrbe': nrbe, 'auto': auto, 'single_dim': sd,
                                'pool': (1 if (q and (auto or sd)) else 2), 'cap': (45 if box == (0.3, 0.9) and q else cap)}, validate=(1 if box == (0.3, 0.9) else (7 if q else 3)), budget_s=(600 if q else 3000)))
    dims = (2, 3) if q else (2, 3, 4)
    for d in dims:
        for lmin in ((1, 2) if q else (1, 2, 3)):
            for span in range(1, (3 if q else 4) + 1):
                lmax = lmin + span
                if d == 4 and span > 2:
                    continue
                for version in (0, 1, 2):
                    for lmax0 in range(lmin + 1, lmax + 1):
                        js.append(Job('coarsen[d=%d,l=%d-%d,v=%d,lmax0=%d]' % (d, lmin, lmax, version, lmax0), coarsen,
                                      {'d': d, 'lmin': lmin, 'lmax': lmax, 'version': version, 'lmax0': lmax0}))
    return js
