"""C02 — standard combination equals the sparse-grid interpolant.

A  uninterpreted F through the real StandardCombi/Integration/TrapezoidalGrid objects: union of component points
   == sparse grid by definition, coefficient sum 1 per point, announced == returned number of points,
   combi(p) == F(p) at every sparse-grid point (point-wise call, batch call, interpolate_grid), get_points_and_weights
   reproduces the combined integral, check_combi_scheme raises nothing.
B  f = sum alpha_{k,i} phi_{k,i} over all hierarchical hats of the sparse-grid space, symbolic alpha:
   combined integral == sum alpha*vol(phi) (closed form); combined interpolant == f at cell centres/corners of the
   finest cells and at one symbolic evaluation point.
"""
import itertools
from fractions import Fraction

import numpy as np

from lift import core, lib
from lift.core import sym_and, is_sym
from lift.run import Job

PROPERTY = 'C02'

BOXES = {
    'unit': lambda d: ([0.0] * d, [1.0] * d),
    'shift': lambda d: ([-3.0] * d, [6.0] * d),
    'mixed': lambda d: ([2.0, -1.0, 0.5][:d], [6.0, 0.0, 2.0][:d]),
}


def _mods():
    from sparseSpACE import StandardCombi, GridOperation, Grid
    return StandardCombi, GridOperation, Grid


def _index_set(d, lmin, lmax):
    return [l for l in itertools.product(range(lmin, lmax + 1), repeat=d) if sum(l) - d * lmin <= lmax - lmin]


def _grid_pts_1d(a, b, l, boundary):
    n = 2 ** l
    idx = range(n + 1) if boundary else range(1, n)
    return [a + (b - a) * Fraction(i, n) for i in idx]


def _sparse_grid(a, b, d, lmin, lmax, boundary):
    pts = set()
    for l in _index_set(d, lmin, lmax):
        for p in itertools.product(*[_grid_pts_1d(Fraction(a[k]), Fraction(b[k]), l[k], boundary) for k in range(d)]):
            pts.add(tuple(float(x) for x in p))
    return pts


def _setup(S, d, lmin, lmax, boundary, box, f, prior=None):
    SC, GO, G = _mods()
    a, b = BOXES[box](d)
    grid = G.TrapezoidalGrid(a=np.array(a), b=np.array(b), boundary=boundary)
    op = GO.Integration(f=f, grid=grid, dim=d)
    combi = SC.StandardCombi(np.array(a), np.array(b), operation=op, print_output=False)
    if prior is not None:
        # the same StandardCombi object was used before with other levels (solver-chosen among the given pairs)
        l0, L0 = prior[S.choice('prior', len(prior))]
        S.observe('prior', [l0, L0])
        combi.perform_operation(l0, L0)
    scheme, err, result = combi.perform_operation(lmin, lmax)
    return a, b, grid, op, combi, scheme, result


def nodal(S, d, lmin, lmax, boundary, box, out_len=1, prior=None):
    f = lib.make_function(S, 'F', d, out_len)
    a, b, grid, op, combi, scheme, result = _setup(S, d, lmin, lmax, boundary, box, f, prior)
    # --- scheme / points
    sg = _sparse_grid(a, b, d, lmin, lmax, boundary)
    union = set()
    count = {}
    ok_num = True
    for cg in scheme:
        pts = combi.get_points_component_grid(cg.levelvector)
        ok_num = ok_num and (combi.get_num_points_component_grid(cg.levelvector, False) == len(pts)) and len(set(pts)) == len(pts)
        for p in pts:
            p = tuple(float(x) for x in p)
            union.add(p)
            count[p] = count.get(p, 0) + cg.coefficient
    S.prove(ok_num, 'points:announced-equals-returned-number-of-points')
    S.prove(union == sg, 'points:union-of-component-grids-is-the-sparse-grid')
    S.prove(all(v == 1 for v in count.values()), 'points:coefficients-sum-to-one-at-every-point')
    S.prove(sorted(tuple(int(x) for x in cg.levelvector) for cg in scheme if cg.coefficient != 0) ==
            sorted(l for l in _index_set(d, lmin, lmax) if _ie_coeff(l, d, lmin, lmax) != 0), 'points:scheme-grids')
    combi.check_combi_scheme()
    S.observe('npoints', len(union))
    # --- interpolation reproduces F at every sparse-grid point
    plist = sorted(union)
    vals = combi(plist)
    ok = True
    for p, v in zip(plist, vals):
        want = f.F(list(p))
        ok = sym_and(ok, *[v[k] == want[k] for k in range(out_len)])
    S.prove(ok, 'interp:batch-call-reproduces-F-at-sparse-grid-points')
    some = plist[:: max(1, len(plist) // 7)]
    ok = True
    for p in some:
        v = combi([p])[0]
        want = f.F(list(p))
        ok = sym_and(ok, *[v[k] == want[k] for k in range(out_len)])
    S.prove(ok, 'interp:single-point-call-reproduces-F')
    # tensor grid of the finest 1-D grids: values at the sparse-grid positions
    axes = [[float(x) for x in _grid_pts_1d(Fraction(a[k]), Fraction(b[k]), lmax, True)] for k in range(d)]
    tg = combi.interpolate_grid(axes)
    ok = True
    for n, p in enumerate(itertools.product(*axes)):
        if p in union:
            want = f.F(list(p))
            ok = sym_and(ok, *[tg[n][k] == want[k] for k in range(out_len)])
        elif not boundary and any(p[k] in (a[k], b[k]) for k in range(d)):
            ok = sym_and(ok, *[tg[n][k] == 0 for k in range(out_len)])
    S.prove(ok, 'interp:interpolate_grid-reproduces-F-at-sparse-grid-points')
    # --- public points and weights reproduce the reported integral
    P, W = combi.get_points_and_weights()
    tot = [0] * out_len
    for p, w in zip(P, W):
        fv = f.F([float(x) for x in p])
        for k in range(out_len):
            tot[k] = tot[k] + w * fv[k]
    res = list(result)
    S.observe('integral', res)
    S.prove(sym_and(*[S.eq(tot[k], res[k]) for k in range(out_len)]), 'integral:points-and-weights-reproduce-result')
    # independent recombination: sum_g c_g * sum_i w_i F(p_i) with the harness's own trapezoidal weights
    tot2 = [0] * out_len
    for cg in scheme:
        lv = [int(x) for x in cg.levelvector]
        axes_w = []
        for k in range(d):
            n = 2 ** lv[k]
            h = (Fraction(b[k]) - Fraction(a[k])) / n
            row = []
            for i in range(n + 1):
                if not boundary and i in (0, n):
                    continue
                row.append((float(Fraction(a[k]) + i * h), h / 2 if i in (0, n) else h))
            axes_w.append(row)
        for combo in itertools.product(*axes_w):
            w = 1
            for c in combo:
                w = w * c[1]
            fv = f.F([c[0] for c in combo])
            for k in range(out_len):
                tot2[k] = tot2[k] + cg.coefficient * w * fv[k]
    S.prove(sym_and(*[S.eq(tot2[k], res[k]) for k in range(out_len)]), 'integral:equals-coefficient-weighted-trapezoidal-sums')


def _ie_coeff(l, d, lmin, lmax):
    s = set(_index_set(d, lmin, lmax))
    c = 0
    for e in itertools.product((0, 1), repeat=d):
        if tuple(l[k] + e[k] for k in range(d)) in s:
            c += (-1) ** sum(e)
    return c


# ---------------------------------------------------------------------------------------------------
class HatSpace:
    """Hierarchical hats of the sparse-grid space of (d, lmin, lmax) on [a,b]; level 0 = the two boundary functions."""

    def __init__(self, a, b, d, lmin, lmax, boundary):
        self.a, self.b, self.d = a, b, d
        levels = set()
        for l in _index_set(d, lmin, lmax):
            for k in itertools.product(*[range(0 if boundary else 1, l[i] + 1) for i in range(d)]):
                levels.add(k)
        self.basis = []  # (levelvec k, index vec i)
        for k in sorted(levels):
            idx = [([0, 1] if k[i] == 0 else list(range(1, 2 ** k[i], 2))) for i in range(d)]
            for iv in itertools.product(*idx):
                self.basis.append((k, iv))

    def phi1(self, dim, k, i, x):
        a, b = self.a[dim], self.b[dim]
        t = (x - a) / (b - a)
        if k == 0:
            return (1 - t) if i == 0 else t
        c = Fraction(i, 2 ** k)
        w = Fraction(1, 2 ** k)
        if t <= c - w or t >= c + w:
            return 0
        return (1 - (c - t) / w) if t <= c else (1 - (t - c) / w)

    def vol(self, k):
        v = 1
        for dim in range(self.d):
            L = self.b[dim] - self.a[dim]
            v = v * (L / 2 if k[dim] == 0 else L * Fraction(1, 2 ** k[dim]))
        return v

    def eval(self, alphas, x):
        tot = 0
        for (k, iv), al in zip(self.basis, alphas):
            v = 1
            for dim in range(self.d):
                p = self.phi1(dim, k[dim], iv[dim], x[dim])
                if not is_sym(p) and p == 0:
                    v = 0
                    break
                v = v * p
            if is_sym(v) or v != 0:
                tot = tot + al * v
        return tot


def _hat_function(S, space, alphas):
    from sparseSpACE.Function import Function

    class HatFunction(Function):
        def eval(self, coordinates):
            return space.eval(alphas, [Fraction(float(c)) if not is_sym(c) else c for c in coordinates])

        def eval_vectorized(self, coordinates):
            coordinates = np.asarray(coordinates)
            out = np.empty(coordinates.shape[:-1] + (1,), dtype=object if S.lifted else float)
            for idx in np.ndindex(coordinates.shape[:-1]):
                v = self.eval(coordinates[idx])
                out[idx] = v if S.lifted else float(v)
            return out

    return HatFunction()


def hier(S, d, lmin, lmax, boundary, box):
    a, b = BOXES[box](d)
    space = HatSpace([Fraction(x) for x in a], [Fraction(x) for x in b], d, lmin, lmax, boundary)
    alphas = [S.real('al%d' % n) for n in range(len(space.basis))]
    f = _hat_function(S, space, alphas)
    a_, b_, grid, op, combi, scheme, result = _setup(S, d, lmin, lmax, boundary, box, f)
    exact = sum(al * space.vol(k) for (k, iv), al in zip(space.basis, alphas))
    S.observe('integral', list(result))
    S.prove(S.eq(result[0], exact), 'hier:combined-integral-is-exact')
    # interpolation at corners and centres of the finest cells
    axes = []
    for k in range(d):
        n = 2 ** (lmax + 1)
        axes.append([float(Fraction(a[k]) + (Fraction(b[k]) - Fraction(a[k])) * Fraction(i, n)) for i in range(n + 1)])
    pts = list(itertools.product(*axes))
    step = max(1, len(pts) // 60)
    pts = pts[::step] + [pts[-1]]
    vals = combi(pts)
    ok = True
    for p, v in zip(pts, vals):
        ok = sym_and(ok, S.eq(v[0], f.eval(p)))
    S.prove(ok, 'hier:interpolant-equals-f-at-cell-corners-and-centres')


def hier_point(S, d, lmin, lmax, boundary, box):
    """Interpolant == f at one symbolic evaluation point (the interval search of every component grid forks)."""
    SC, GO, G = _mods()
    a, b = BOXES[box](d)
    space = HatSpace([Fraction(x) for x in a], [Fraction(x) for x in b], d, lmin, lmax, boundary)
    alphas = [S.real('al%d' % n) for n in range(len(space.basis))]
    f = _hat_function(S, space, alphas)
    grid = G.TrapezoidalGrid(a=np.array(a), b=np.array(b), boundary=boundary)
    op = GO.Integration(f=f, grid=grid, dim=d)
    combi = SC.StandardCombi(np.array(a), np.array(b), operation=op, print_output=False)
    combi.set_combi_parameters(lmin, lmax)
    x = [S.real('x%d' % k) for k in range(d)]
    for k in range(d):
        S.assume(x[k] >= a[k])
        S.assume(x[k] <= b[k])
    v = combi([tuple(x)])[0]
    S.prove(S.eq(v[0], f.eval(x)), 'hier:interpolant-equals-f-at-a-symbolic-point')


# ---------------------------------------------------------------------------------------------------
def _configs(tier):
    cfgs = []
    if tier == 'quick':
        for d, lmaxmax in ((1, 4), (2, 4), (3, 3)):
            for lmin in range(1, lmaxmax + 1):
                for lmax in range(lmin, lmaxmax + 1):
                    cfgs.append((d, lmin, lmax))
    else:
        for d, lmaxmax in ((1, 6), (2, 5), (3, 4), (4, 3)):
            for lmin in range(1, lmaxmax + 1):
                for lmax in range(lmin, lmaxmax + 1):
                    cfgs.append((d, lmin, lmax))
    return cfgs


BOUNDS = {
    'quick': {'d<=3; 1<=lmin<=lmax<=4 (d<=2), <=3 (d=3)': True, 'boxes': ['[0,1]^d', '[-3,6]^d', '[2,6]x[-1,0]x[0.5,2]'],
              'boundary': [True, False], 'output length': [1, 2], 'symbolic evaluation point': 'd=1; d=2 with lmax<=3'},
    'thorough': {'d<=4; lmax<=6/5/4/3 for d=1/2/3/4': True, 'boxes': ['[0,1]^d', '[-3,6]^d', '[2,6]x[-1,0]x[0.5,2]'],
                 'boundary': [True, False], 'output length': [1, 2], 'symbolic evaluation point': 'd=1; d=2 with lmax<=4'},
}

META = {
    'functions': ['StandardCombi.perform_operation', 'StandardCombi.__call__', 'StandardCombi.interpolate_points', 'StandardCombi.interpolate_grid',
                  'StandardCombi.get_points_component_grid', 'StandardCombi.get_num_points_component_grid', 'StandardCombi.get_points_and_weights',
                  'StandardCombi.check_combi_scheme', 'CombiScheme.getCombiScheme', 'Integration.evaluate_levelvec', 'Integration.get_component_grid_values',
                  'GridOperation.interpolate_points_component_grid', 'Interpolation.interpolate_points', 'Grid.setCurrentArea', 'Grid.integrate',
                  'TrapezoidalGrid1D.*', 'Grid1d.set_current_area', 'Grid.points_not_zero', 'IntegratorArbitraryGridScalarProduct.__call__', 'Function.__call__'],
    'bounds': BOUNDS,
    'assumptions': ['concrete boxes (three shapes incl. negative, non-unit and anisotropic); function values / hierarchical surpluses / the evaluation point are the solver variables',
                    'scipy.interpolate.interpn replaced by a reference multilinear interpolant (validated against scipy at every run)',
                    'floats are exact rationals (all grid coordinates here are dyadic fractions of the box, exactly representable)'],
    'outside': ['non-nested grid families', 'd >= 5, larger levels', 'symbolic boxes'],
}

MANIFEST_ENTRY = {
    'text': 'The real StandardCombi/Integration/TrapezoidalGrid code is executed on an uninterpreted integrand and on a generic element of the hierarchical '
            'sparse-grid space (symbolic surpluses): reproduction at every sparse-grid point and exactness of integral and interpolant are linear-arithmetic '
            'validity queries decided for all functions at once, for every (d, lmin, lmax, boundary, box) in the bound.',
    'note': 'Trusted: z3, LIFT proxies/numpy facade, the interpn reference stub (cross-checked against scipy each run). Geometry is concrete.',
}


def jobs(tier):
    js = []
    boxes = ['unit', 'shift', 'mixed']
    n = 0
    for (d, lmin, lmax) in _configs(tier):
        for boundary in (True, False):
            if not boundary and lmin < 1:
                continue
            for bi, box in enumerate(boxes):
                # rotate boxes over configurations in the quick tier, all boxes in thorough
                if tier == 'quick' and (n + bi) % 3 != 0:
                    continue
                out_len = 2 if (n % 2 == 1) else 1
                js.append(Job('nodal[d=%d,lmin=%d,lmax=%d,%s,%s,out=%d]' % (d, lmin, lmax, 'b' if boundary else 'nb', box, out_len), nodal,
                              {'d': d, 'lmin': lmin, 'lmax': lmax, 'boundary': boundary, 'box': box, 'out_len': out_len}))
                js.append(Job('hier[d=%d,lmin=%d,lmax=%d,%s,%s]' % (d, lmin, lmax, 'b' if boundary else 'nb', box), hier,
                              {'d': d, 'lmin': lmin, 'lmax': lmax, 'boundary': boundary, 'box': box}))
                if (d == 1) or (d == 2 and lmax <= (3 if tier == 'quick' else 4)):
                    js.append(Job('hierpoint[d=%d,lmin=%d,lmax=%d,%s,%s]' % (d, lmin, lmax, 'b' if boundary else 'nb', box), hier_point,
                                  {'d': d, 'lmin': lmin, 'lmax': lmax, 'boundary': boundary, 'box': box},
                                  validate=(5 if tier == 'quick' else 2)))
            n += 1
    # the same StandardCombi object used twice: an earlier perform_operation with other levels must not leak into the second one
    reuse = [(2, 1, 3, True, 'unit', 1), (2, 2, 3, False, 'shift', 2), (2, 2, 4, True, 'mixed', 1), (1, 2, 4, True, 'shift', 2), (3, 2, 3, True, 'unit', 1)]
    if tier != 'quick':
        reuse += [(2, 3, 4, False, 'unit', 1), (2, 1, 4, True, 'shift', 2), (3, 1, 3, False, 'mixed', 1)]
    for (d, lmin, lmax, boundary, box, out_len) in reuse:
        prior = [(l0, L0) for L0 in range(1, lmax + 2) for l0 in range(1, L0 + 1) if (l0, L0) != (lmin, lmax) and (d < 3 or L0 <= 3)]
        js.append(Job('nodal-reuse[d=%d,lmin=%d,lmax=%d,%s,%s,out=%d]' % (d, lmin, lmax, 'b' if boundary else 'nb', box, out_len), nodal,
                      {'d': d, 'lmin': lmin, 'lmax': lmax, 'boundary': boundary, 'box': box, 'out_len': out_len, 'prior': prior}, validate=3))
    return js
