#!/bin/sh
# Builds the overlay virtualenv used by every check: /venv's site-packages (numpy, scipy, sklearn,
# the editable sparseSpACE install pointing at /repo) + z3-solver/cvc5/jsonschema from the offline
# wheelhouse.  Idempotent; invoked by MANIFEST.setup_cmd and by ./vcheck when the venv is missing.
set -e
cd "$(dirname "$0")"
V=.venv
if [ -x $V/bin/python ] && $V/bin/python -c "import z3, numpy, jsonschema" 2>/dev/null; then
  exit 0
fi
rm -rf $V
/venv/bin/python -m venv $V
echo "import site; site.addsitedir('/venv/lib/python3.12/site-packages')" > $V/lib/python3.12/site-packages/_base.pth
PIP_NO_INDEX=1 $V/bin/pip install -q --no-index --find-links /opt/veriftools/wheels z3-solver cvc5 jsonschema >/dev/null 2>&1 \
  || PIP_NO_INDEX=1 $V/bin/pip install -q --no-index --find-links /opt/veriftools/wheels z3-solver jsonschema
$V/bin/python -c "import z3, numpy, jsonschema; print('verif venv ok, z3', z3.get_version_string())"
