"""Helpers shared by the harnesses (library-facing)."""
import numpy as _np

from .core import SymNum, is_sym, sym_and, sym_or, sym_not, sym_implies


_SOURCE = [None]  # the Source of the harness run in progress (lets pickled harness objects find it again)
_FUNCS = {}


def current_source():
    return _SOURCE[0]


def _base_function():
    from sparseSpACE.Function import Function
    return Function


def _make_classes():
    Function = _base_function()

    class HarnessFunction(Function):
        """sparseSpACE Function whose values come from the Source: uninterpreted in lifted mode, a table in concrete mode.
        Picklable (dill): it refers to the Source through the module-level registry only."""

        def __init__(self, name, dim, out_len):
            super().__init__()
            self.name, self.dim_, self.out_len = name, dim, out_len
            self.eval_log = []
            self.scalar_eval = False  # eval returns a plain scalar (as most scalar-valued library functions do) instead of a length-1 array

        @property
        def F(self):
            return _FUNCS[self.name]

        def output_length(self):
            return self.out_len

        def eval(self, coordinates):
            self.eval_log.append(tuple(float(c) if not is_sym(c) else c for c in coordinates))
            v = self.F(list(coordinates))
            if self.scalar_eval and self.out_len == 1:
                return v[0] if _SOURCE[0].lifted else float(v[0])
            if _SOURCE[0].lifted:
                a = _np.empty(self.out_len, dtype=object)
                for i, x in enumerate(v):
                    a[i] = x
                return a
            return _np.array(v, dtype=float)

        def eval_vectorized(self, coordinates):
            coordinates = _np.asarray(coordinates)
            if coordinates.ndim == 1:
                return self.eval(coordinates)
            out = _np.empty(coordinates.shape[:-1] + (self.out_len,), dtype=object if _SOURCE[0].lifted else float)
            for idx in _np.ndindex(coordinates.shape[:-1]):
                out[idx] = self.eval(coordinates[idx])
            return out

    class HarnessFunctionNoCache(HarnessFunction):
        def __call__(self, coordinates):
            c0 = coordinates[0]
            if is_sym(c0) or _np.isscalar(c0):
                return self.eval(coordinates)
            return self.eval_vectorized(_np.array([list(c) for c in coordinates], dtype=object if _SOURCE[0].lifted else float))

    return HarnessFunction, HarnessFunctionNoCache


_CLASSES = []


def make_function(S, name, dim, out_len=1, cache=True, scalar_eval=False):
    """A sparseSpACE Function whose values are given by the source S: uninterpreted in lifted mode,
    a table from the solver model in concrete mode.  With cache=False Function.__call__ is bypassed
    (needed when the coordinates themselves are symbolic: the cache hashes coordinate tuples)."""
    if not _CLASSES:
        _CLASSES.extend(_make_classes())
        import sys
        mod = sys.modules[__name__]
        for c in _CLASSES:  # module-level names so that pickling by reference works
            setattr(mod, c.__name__, c)
            c.__module__ = __name__
            c.__qualname__ = c.__name__
    _SOURCE[0] = S
    _FUNCS[name] = S.func(name, dim, out_len)
    f = (_CLASSES[0] if cache else _CLASSES[1])(name, dim, out_len)
    f.scalar_eval = scalar_eval
    return f


def sorted_reals(S, name, n, strict=True):
    xs = [S.real('%s%d' % (name, i)) for i in range(n)]
    for i in range(n - 1):
        S.assume(xs[i] < xs[i + 1] if strict else xs[i] <= xs[i + 1])
    return xs


def tree_levels(S, name, n, max_level=None):
    """Arbitrary refinement-tree level assignment for n sorted points (end points level 0, inner points form a binary
    tree: Catalan(n-2) assignments).  The solver picks the tree (exhaustive value forking over the index)."""
    trees = all_trees(n, max_level)
    i = S.choice(name + '_tree', len(trees))
    return list(trees[i])


def valid_tree(lv):
    n = len(lv)
    if lv[0] != 0 or lv[-1] != 0:
        return False
    for i in range(1, n - 1):
        l = lv[i]
        if l < 1:
            return False
        # nearest lower-level neighbours
        j = i - 1
        while lv[j] >= l:
            if lv[j] == l:
                return False
            j -= 1
        k = i + 1
        while lv[k] >= l:
            if lv[k] == l:
                return False
            k += 1
        if max(lv[j], lv[k]) != l - 1:
            return False
    return True


_TREES = {}


def _inner_trees(m, l):
    """Level sequences of a binary tree with m nodes whose root has level l (in-order)."""
    if m == 0:
        return [[]]
    key = (m, l)
    if key in _TREES:
        return _TREES[key]
    res = []
    for k in range(m):
        for left in _inner_trees(k, l + 1):
            for right in _inner_trees(m - 1 - k, l + 1):
                res.append(left + [l] + right)
    _TREES[key] = res
    return res


def all_trees(n, max_level=None):
    """All valid level assignments with n points."""
    if n == 2:
        return [[0, 0]]
    res = [[0] + t + [0] for t in _inner_trees(n - 2, 1)]
    if max_level is not None:
        res = [t for t in res if max(t) <= max_level]
    return res


def dyadic_coords(levels, a, b):
    """Coordinates of a dyadic refinement tree with the given level sequence on [a,b] (exact for dyadic a,b)."""
    n = len(levels)
    xs = [None] * n
    xs[0], xs[-1] = a, b

    def fill(lo, hi, l):
        # the unique point of level l between lo and hi is the midpoint
        idx = [i for i in range(lo + 1, hi) if levels[i] == l]
        if not idx:
            return
        assert len(idx) == 1, (levels, lo, hi, l)
        m = idx[0]
        xs[m] = (xs[lo] + xs[hi]) / 2
        fill(lo, m, l + 1)
        fill(m, hi, l + 1)

    fill(0, n - 1, 1)
    assert all(x is not None for x in xs), levels
    return xs
