"""LIFT core: symbolic proxies over z3 + path exploration by re-execution.

Python ``int`` is modelled as z3 Int, Python ``float`` as z3 Real (exact rational semantics; rounding is
outside every claim).  Proxies keep a canonical sum-of-monomials form over *atoms* (z3 constants,
uninterpreted-function applications, ite/div/mod/inverse terms), so that purely concrete sub-computations
are lowered back to Python numbers and never reach the solver, and syntactically equal values compare
equal without a query.

The only forking point is ``SymBool.__bool__`` (and integer realisation, which forks on ``e == v``).
"""
from __future__ import annotations

import time
from fractions import Fraction

import z3


class Unsupported(Exception):
    """The lifted execution met an operation it cannot model; never a violation, always inconclusive."""


class PathInfeasible(BaseException):
    """Raised when an assumption makes the current path infeasible (path is dropped)."""


class PathLimit(BaseException):
    """Raised when a path exceeds a stated exploration bound (branch budget)."""


# ---------------------------------------------------------------------------------------------------
# atoms and polynomials
# ---------------------------------------------------------------------------------------------------
_ATOMS = {}  # z3 ast id -> (z3 expr, is_int)


def _atom(z, is_int):
    i = z.get_id()
    if i not in _ATOMS:
        _ATOMS[i] = (z, is_int)
    return i


def reset_atoms():
    _ATOMS.clear()
    _INV_OF.clear()
    _INV_ATOM.clear()


# reciprocal atoms of single atoms: inv(a) * a cancels syntactically in _mono_mul (a != 0 is established on the path
# before the reciprocal is formed, exactly where Python would raise ZeroDivisionError)
_INV_OF = {}
_INV_ATOM = {}


def _inv_atom(a):
    """Atom id of 1/a for the atom id a (the base atom itself if a is already a reciprocal atom)."""
    if a in _INV_OF:
        return _INV_OF[a]
    if a in _INV_ATOM:
        return _INV_ATOM[a]
    z, ai = _ATOMS[a]
    zi = 1 / (z3.ToReal(z) if ai else z)
    i = _atom(zi, False)
    _INV_ATOM[a] = i
    _INV_OF[i] = a
    return i


_ONE = ()


def _mono_mul(m1, m2):
    if not m1:
        return m2
    if not m2:
        return m1
    d = dict(m1)
    for a, p in m2:
        d[a] = d.get(a, 0) + p
    if _INV_OF:
        for a in list(d):
            b = _INV_OF.get(a)
            if b is not None and b in d and a in d:
                k = min(d[a], d[b])
                for x in (a, b):
                    d[x] -= k
                    if d[x] == 0:
                        del d[x]
    return tuple(sorted(d.items()))


def _lift_const(x):
    """Exact rational value of a concrete Python/numpy number (None if not a number)."""
    if isinstance(x, bool):
        return Fraction(int(x))
    if isinstance(x, int):
        return Fraction(x)
    if isinstance(x, float):
        if x != x or x in (float('inf'), float('-inf')):
            raise Unsupported('non-finite float %r in symbolic arithmetic' % (x,))
        return Fraction(x)
    if isinstance(x, Fraction):
        return x
    try:
        import numpy as _np
        if isinstance(x, _np.bool_):
            return Fraction(int(x))
        if isinstance(x, _np.integer):
            return Fraction(int(x))
        if isinstance(x, _np.floating):
            return _lift_const(float(x))
    except ImportError:  # pragma: no cover
        pass
    return None


def _is_intlike(x):
    if isinstance(x, (bool, int)):
        return True
    try:
        import numpy as _np
        return isinstance(x, (_np.integer, _np.bool_))
    except ImportError:  # pragma: no cover
        return False


class SymNum:
    """Polynomial with rational coefficients over atoms.  ``is_int`` mirrors the Python type (int vs float)."""
    __slots__ = ('terms', 'is_int', '_z')

    def __init__(self, terms, is_int):
        self.terms = terms
        self.is_int = is_int
        self._z = None

    # -- construction helpers ---------------------------------------------------------------------
    @staticmethod
    def const(c, is_int):
        return SymNum({_ONE: Fraction(c)} if c != 0 else {}, is_int)

    @staticmethod
    def from_z3(z):
        is_int = z.sort().kind() == z3.Z3_INT_SORT
        if z3.is_int_value(z):
            return SymNum.const(z.as_long(), True)
        if z3.is_rational_value(z):
            return SymNum.const(Fraction(z.numerator_as_long(), z.denominator_as_long()), False)
        return SymNum({((_atom(z, is_int), 1),): Fraction(1)}, is_int)

    @staticmethod
    def coerce(x):
        if isinstance(x, SymNum):
            return x
        if isinstance(x, SymBool):
            return x.as_num()
        c = _lift_const(x)
        if c is None:
            return None
        return SymNum.const(c, _is_intlike(x))

    def is_const(self):
        return not self.terms or (len(self.terms) == 1 and _ONE in self.terms)

    def const_value(self):
        return self.terms.get(_ONE, Fraction(0))

    def lower(self):
        """Python number if this is a constant that Python can hold exactly, else self."""
        if self.is_const():
            c = self.const_value()
            if self.is_int:
                if c.denominator == 1:
                    return int(c)
                raise AssertionError('non-integral int constant')
            f = float(c)
            if Fraction(f) == c:
                return f
        return self

    # -- z3 conversion ----------------------------------------------------------------------------
    def z3(self):
        if self._z is not None:
            return self._z
        want_int = self.is_int and all(c.denominator == 1 for c in self.terms.values()) and all(
            _ATOMS[a][1] for m in self.terms for a, _ in m)
        parts = []
        for m in sorted(self.terms):  # canonical order: equal polynomials give the identical z3 term
            c = self.terms[m]
            fs = []
            for a, p in m:
                z, ai = _ATOMS[a]
                if ai and not want_int:
                    z = z3.ToReal(z)
                for _ in range(p):
                    fs.append(z)
            if want_int:
                cz = z3.IntVal(int(c))
            elif c.denominator == 1:
                cz = z3.RealVal(c.numerator)
            else:
                cz = z3.Q(c.numerator, c.denominator)
            if not fs:
                parts.append(cz)
            else:
                prod = fs[0]
                for f in fs[1:]:
                    prod = prod * f
                parts.append(prod if c == 1 else cz * prod)
        if not parts:
            r = z3.IntVal(0) if want_int else z3.RealVal(0)
        elif len(parts) == 1:
            r = parts[0]
        else:
            r = z3.Sum(parts)
        self._z = r
        return r

    def z3real(self):
        z = self.z3()
        if z.sort().kind() == z3.Z3_INT_SORT:
            return z3.ToReal(z)
        return z

    # -- arithmetic -------------------------------------------------------------------------------
    def _res(self, terms, is_int):
        return SymNum(terms, is_int).lower()

    def __add__(self, o):
        o = SymNum.coerce(o)
        if o is None:
            return NotImplemented
        t = dict(self.terms)
        for m, c in o.terms.items():
            v = t.get(m, 0) + c
            if v == 0:
                t.pop(m, None)
            else:
                t[m] = v
        return self._res(t, self.is_int and o.is_int)

    __radd__ = __add__

    def __neg__(self):
        return self._res({m: -c for m, c in self.terms.items()}, self.is_int)

    def __pos__(self):
        return self

    def __sub__(self, o):
        o = SymNum.coerce(o)
        if o is None:
            return NotImplemented
        return self + (-o)

    def __rsub__(self, o):
        o = SymNum.coerce(o)
        if o is None:
            return NotImplemented
        return o + (-self)

    def __mul__(self, o):
        o = SymNum.coerce(o)
        if o is None:
            return NotImplemented
        t = {}
        for m1, c1 in self.terms.items():
            for m2, c2 in o.terms.items():
                m = _mono_mul(m1, m2)
                v = t.get(m, 0) + c1 * c2
                if v == 0:
                    t.pop(m, None)
                else:
                    t[m] = v
        return self._res(t, self.is_int and o.is_int)

    __rmul__ = __mul__

    def _inverse(self):
        if self.is_const():
            c = self.const_value()
            if c == 0:
                raise ZeroDivisionError('division by zero')
            return SymNum.const(1 / c, False)
        if bool(SymBool(self.z3() == 0)):
            raise ZeroDivisionError('division by (symbolic) zero')
        if len(self.terms) == 1:
            # reciprocal of a monomial c*a1^p1*...: product of reciprocal atoms (cancels against the atoms themselves)
            (m, c), = self.terms.items()
            mono = tuple(sorted((_inv_atom(a), p) for a, p in m))
            return SymNum({mono: 1 / c}, False)
        # canonical inverse atom: 1/self = f * inv(q) with q = f*self having coprime integer coefficients and a
        # positive leading coefficient (monomials in sorted order), so 1/(x-y) and 1/(y-x) share one atom.
        q = _normalised(self)
        f = None
        for m in sorted(q.terms):
            f = q.terms[m] / self.terms[m]
            lead = q.terms[m]
            break
        if lead < 0:
            q = SymNum({m: -c for m, c in q.terms.items()}, q.is_int)
            f = -f
        q = SymNum({m: q.terms[m] for m in sorted(q.terms)}, q.is_int)
        z = 1 / q.z3real()
        return SymNum({((_atom(z, False), 1),): Fraction(f)}, False)

    def _div_monomial(self, o):
        """Exact quotient when the divisor is a single term c*m and m divides every term of self."""
        (m2, c2), = o.terms.items()
        d2 = dict(m2)
        t = {}
        for m1, c1 in self.terms.items():
            d1 = dict(m1)
            for a, p in d2.items():
                if d1.get(a, 0) < p:
                    return None
                d1[a] -= p
                if d1[a] == 0:
                    del d1[a]
            t[tuple(sorted(d1.items()))] = c1 / c2
        return t

    def __truediv__(self, o):
        o = SymNum.coerce(o)
        if o is None:
            return NotImplemented
        if o.is_const():
            c = o.const_value()
            if c == 0:
                raise ZeroDivisionError('division by zero')
            return self._res({m: v / c for m, v in self.terms.items()}, False)
        if len(o.terms) == 1:
            t = self._div_monomial(o)
            if t is not None:
                if bool(SymBool(o.z3() == 0)):
                    raise ZeroDivisionError('division by (symbolic) zero')
                return self._res(t, False)
        # cancel syntactically equal numerator/denominator up to a constant factor
        r = _const_ratio(self, o)
        if r is not None:
            if bool(SymBool(o.z3() == 0)):
                raise ZeroDivisionError('division by (symbolic) zero')
            return SymNum.const(r, False).lower()
        return SymNum.coerce(self * o._inverse())

    def __rtruediv__(self, o):
        o = SymNum.coerce(o)
        if o is None:
            return NotImplemented
        return o.__truediv__(self)

    def __floordiv__(self, o):
        o = SymNum.coerce(o)
        if o is None:
            return NotImplemented
        if self.is_int and o.is_int:
            if o.is_const() and self.is_const():
                return int(self.const_value()) // int(o.const_value())
            if o.is_const():
                k = int(o.const_value())
                if k == 0:
                    raise ZeroDivisionError
                if k > 0:
                    z = self.z3() / k  # z3 Int div with positive divisor == floor
                    return SymNum.from_z3(z3.simplify(z)).lower()
            raise Unsupported('symbolic // with non-constant or negative divisor')
        q = self / o
        return floor(q) * 1.0

    def __rfloordiv__(self, o):
        o = SymNum.coerce(o)
        if o is None:
            return NotImplemented
        return o.__floordiv__(self)

    def __mod__(self, o):
        o = SymNum.coerce(o)
        if o is None:
            return NotImplemented
        if self.is_int and o.is_int and o.is_const():
            k = int(o.const_value())
            if k > 0:
                z = self.z3() % k
                return SymNum.from_z3(z3.simplify(z)).lower()
        raise Unsupported('symbolic % beyond int %% positive constant')

    def __rmod__(self, o):
        raise Unsupported('concrete % symbolic')

    def __pow__(self, e, mod=None):
        if mod is not None:
            raise Unsupported('pow with modulus')
        if isinstance(e, SymNum):
            e = e.lower()
            if isinstance(e, SymNum):
                if e.is_int:
                    e = realize_int(e)
                else:
                    raise Unsupported('symbolic real exponent')
        if isinstance(e, float) and e == 0.5:
            return sym_sqrt(self)
        if isinstance(e, float) and e == int(e):
            ef = True
            e = int(e)
        else:
            ef = False
        if not _is_intlike(e):
            if isinstance(e, float):
                return upow(self, e)
            raise Unsupported('non-integer exponent %r' % (e,))
        e = int(e)
        if e < 0:
            r = (1 / self) ** (-e)
            return r
        r = SymNum.const(1, self.is_int and not ef)
        b = self
        for _ in range(e):
            r = SymNum.coerce(r * b)
        if ef and isinstance(r, SymNum):
            r = SymNum(r.terms, False)
        return r.lower() if isinstance(r, SymNum) else r

    def __rpow__(self, b):
        # concrete base, symbolic exponent: realise the exponent (exhaustive value forking)
        if self.is_int:
            e = realize_int(self)
            return b ** e
        raise Unsupported('symbolic real exponent')

    def __abs__(self):
        if self.is_const():
            return SymNum.const(abs(self.const_value()), self.is_int).lower()
        z = self.z3()
        c = _CTX[0]
        if c is not None and getattr(c, 'abs_implied', False):
            # opt-in: when the path condition fixes the sign, |x| is x or -x (keeps polynomial normal forms syntactic)
            sg = c.implied_sign(z)
            if sg > 0:
                return self
            if sg < 0:
                return -self
        return SymNum.from_z3(z3.If(z >= 0, z, -z)).lower()

    # -- comparisons ------------------------------------------------------------------------------
    def _cmp(self, o, op):
        o = SymNum.coerce(o)
        if o is None:
            return NotImplemented
        d = SymNum.coerce(self - o)
        if d.is_const():
            c = d.const_value()
            return {'<': c < 0, '<=': c <= 0, '>': c > 0, '>=': c >= 0, '==': c == 0, '!=': c != 0}[op]
        # normalise sign/scale so that equal conditions share one z3 term
        z = _normalised(d).z3()
        zero = 0
        if op == '<':
            return SymBool(z < zero)
        if op == '<=':
            return SymBool(z <= zero)
        if op == '>':
            return SymBool(z > zero)
        if op == '>=':
            return SymBool(z >= zero)
        if op == '==':
            return SymBool(z == zero)
        return SymBool(z != zero)

    def __lt__(self, o):
        return self._cmp(o, '<')

    def __le__(self, o):
        return self._cmp(o, '<=')

    def __gt__(self, o):
        return self._cmp(o, '>')

    def __ge__(self, o):
        return self._cmp(o, '>=')

    def __eq__(self, o):
        r = self._cmp(o, '==')
        return False if r is NotImplemented else r

    def __ne__(self, o):
        r = self._cmp(o, '!=')
        return True if r is NotImplemented else r

    # -- conversions ------------------------------------------------------------------------------
    def __bool__(self):
        return bool(self != 0)

    def __hash__(self):
        if self.is_const():
            return hash(self.lower() if not isinstance(self.lower(), SymNum) else self.const_value())
        mode = CTX().hash_mode
        if mode == 'affine' and self._is_affine_key():
            return hash(frozenset(self.terms.items()))
        if mode == 'normal_form':
            # hashing by normal form: sound iff distinct normal forms used as keys denote distinct values on this path;
            # every key is recorded and the runner discharges the pairwise distinctness obligations at the end of the path
            key = frozenset(self.terms.items())
            CTX().hashed_keys[key] = self
            return hash(key)
        if self.is_int:
            return hash(realize_int(self))
        raise Unsupported('hash of symbolic real')

    def _is_affine_key(self):
        # base + const with one registered base atom (coefficient 1): two such values are equal iff their
        # normal forms are equal, so hashing the normal form is sound.
        aff = CTX().affine_atoms
        nat = 0
        for m, c in self.terms.items():
            if m == _ONE:
                continue
            if len(m) != 1 or m[0][1] != 1 or c != 1 or m[0][0] not in aff:
                return False
            nat += 1
        return nat == 1

    def __index__(self):
        if self.is_const():
            return int(self.const_value())
        if self.is_int:
            return realize_int(self)
        raise Unsupported('index from symbolic real')

    def __int__(self):
        if self.is_const():
            c = self.const_value()
            return int(c)
        if self.is_int:
            return realize_int(self)
        raise Unsupported('int() of symbolic real')

    def __float__(self):
        if self.is_const():
            return float(self.const_value())
        raise Unsupported('float() of symbolic value (silent concretisation is not allowed)')

    def __round__(self, n=None):
        if self.is_const():
            return round(self.const_value(), n)
        raise Unsupported('round of symbolic value')

    def __floor__(self):
        return floor(self)

    def __ceil__(self):
        return -floor(-self)

    def __repr__(self):
        # cheap on purpose: the library formats values into log messages on every step
        if self.is_const():
            return 'Sym(%s)' % (self.const_value(),)
        return 'Sym(<%d terms>)' % len(self.terms)

    def describe(self):
        s = str(z3.simplify(self.z3()))
        return s if len(s) < 400 else s[:400] + '...'

    __str__ = __repr__

    def __format__(self, spec):
        return repr(self)

    def __reduce__(self):
        return (_unpickle_num, (self.z3().serialize(), self.is_int))

    def __deepcopy__(self, memo):
        return self

    def __copy__(self):
        return self

    # numpy scalar-ish attributes used by the library
    @property
    def real(self):
        return self

    @property
    def shape(self):
        return ()

    @property
    def ndim(self):
        return 0

    def conjugate(self):
        return self

    def item(self):
        return self

    def sqrt(self):
        return sym_sqrt(self)

    def exp(self):
        return ufunc_app('exp', self)

    def cos(self):
        return ufunc_app('cos', self)

    def sin(self):
        return ufunc_app('sin', self)

    def log(self):
        return ufunc_app('log', self)


def _unpickle_num(s, is_int):
    z = z3.deserialize(s)
    r = SymNum.from_z3(z)
    return r.lower() if isinstance(r, SymNum) else r


def _const_ratio(a, b):
    """If a == r*b syntactically for a rational r, return r."""
    if len(a.terms) != len(b.terms) or not b.terms:
        return None
    r = None
    for m, c in b.terms.items():
        if m not in a.terms:
            return None
        q = a.terms[m] / c
        if r is None:
            r = q
        elif r != q:
            return None
    return r


def _normalised(d):
    """Scale a polynomial by a positive rational so coefficients are coprime integers (keeps sign)."""
    from math import gcd
    den = 1
    for c in d.terms.values():
        den = den * c.denominator // gcd(den, c.denominator)
    g = 0
    for c in d.terms.values():
        g = gcd(g, abs(int(c * den)))
    if g == 0:
        return d
    f = Fraction(den, g)
    if f == 1:
        return d
    return SymNum({m: c * f for m, c in d.terms.items()}, d.is_int)


def floor(x):
    x = SymNum.coerce(x)
    if x.is_const():
        import math
        return math.floor(x.const_value())
    if x.is_int:
        return x
    z = z3.ToInt(x.z3real())
    return SymNum.from_z3(z)


_UFS = {}


def ufunc_app(name, x):
    """Uninterpreted transcendental: only congruence is used."""
    x = SymNum.coerce(x)
    if x.is_const():
        import math
        return getattr(math, name)(float(x.const_value()))
    f = _UFS.get(name)
    if f is None:
        f = _UFS[name] = z3.Function('uf_' + name, z3.RealSort(), z3.RealSort())
    return SymNum.from_z3(f(x.z3real()))


def upow(x, e):
    """x ** e for a non-integer constant exponent: uninterpreted (congruence only)."""
    x = SymNum.coerce(x)
    if x.is_const():
        return float(x.const_value()) ** e
    name = 'pow_%s' % repr(e).replace('.', '_').replace('-', 'm')
    f = _UFS.get(name)
    if f is None:
        f = _UFS[name] = z3.Function('uf_' + name, z3.RealSort(), z3.RealSort())
    return SymNum.from_z3(f(x.z3real()))


def sym_sqrt(x):
    x = SymNum.coerce(x)
    if x.is_const():
        import math
        c = x.const_value()
        r = math.sqrt(float(c))
        if Fraction(r) * Fraction(r) == c:
            return r
        raise Unsupported('inexact concrete sqrt in exact arithmetic')  # conservatively not modelled
    # sqrt(x): fresh y >= 0 with y*y == x  (needs x >= 0 on this path)
    c = CTX()
    y = c.fresh_real('sqrt')
    c.assume_z3(z3.And(y.z3() >= 0, (y * y).z3real() == x.z3real()))
    return y


# ---------------------------------------------------------------------------------------------------
# booleans
# ---------------------------------------------------------------------------------------------------
class SymBool:
    __slots__ = ('z',)

    def __init__(self, z):
        self.z = z

    def __bool__(self):
        return CTX().branch(self.z)

    def __and__(self, o):
        o = _to_boolz(o)
        return _lower_bool(z3.And(self.z, o))

    __rand__ = __and__

    def __or__(self, o):
        o = _to_boolz(o)
        return _lower_bool(z3.Or(self.z, o))

    __ror__ = __or__

    def __xor__(self, o):
        o = _to_boolz(o)
        return _lower_bool(z3.Xor(self.z, o))

    __rxor__ = __xor__

    def __invert__(self):
        return _lower_bool(z3.Not(self.z))

    def __eq__(self, o):
        if isinstance(o, (bool, SymBool)):
            return _lower_bool(self.z == _to_boolz(o))
        return self.as_num() == o

    def __ne__(self, o):
        r = self.__eq__(o)
        return (not r) if isinstance(r, bool) else ~r

    def __hash__(self):
        return hash(bool(self))

    def as_num(self):
        return SymNum.from_z3(z3.If(self.z, z3.IntVal(1), z3.IntVal(0)))

    def __add__(self, o):
        return self.as_num() + o

    __radd__ = __add__

    def __mul__(self, o):
        return self.as_num() * o

    __rmul__ = __mul__

    def __sub__(self, o):
        return self.as_num() - o

    def __rsub__(self, o):
        return o - self.as_num()

    def __int__(self):
        return int(bool(self))

    def __index__(self):
        return int(bool(self))

    def __repr__(self):
        return 'SymBool(<term>)'

    def __reduce__(self):
        return (_unpickle_bool, (self.z.serialize(),))

    def __deepcopy__(self, memo):
        return self


def _unpickle_bool(s):
    return _lower_bool(z3.deserialize(s))


def _to_boolz(o):
    if isinstance(o, SymBool):
        return o.z
    if isinstance(o, SymNum):
        o = (o != 0)
        return o.z if isinstance(o, SymBool) else z3.BoolVal(bool(o))
    return z3.BoolVal(bool(o))


def _lower_bool(z):
    z = z3.simplify(z)
    if z3.is_true(z):
        return True
    if z3.is_false(z):
        return False
    return SymBool(z)


def sym_and(*xs):
    zs = []
    for x in xs:
        if isinstance(x, SymBool):
            zs.append(x.z)
        elif not x:
            return False
    if not zs:
        return True
    return _lower_bool(z3.And(*zs)) if len(zs) > 1 else SymBool(zs[0])


def sym_or(*xs):
    zs = []
    for x in xs:
        if isinstance(x, SymBool):
            zs.append(x.z)
        elif x:
            return True
    if not zs:
        return False
    return _lower_bool(z3.Or(*zs)) if len(zs) > 1 else SymBool(zs[0])


def sym_not(x):
    if isinstance(x, SymBool):
        return _lower_bool(z3.Not(x.z))
    return not x


def sym_implies(a, b):
    return sym_or(sym_not(a), b)


def ite(c, a, b):
    """If-then-else without forking."""
    if not isinstance(c, SymBool):
        return a if c else b
    a_ = SymNum.coerce(a)
    b_ = SymNum.coerce(b)
    if a_.is_int and b_.is_int:
        z = z3.If(c.z, a_.z3(), b_.z3())
    else:
        z = z3.If(c.z, a_.z3real(), b_.z3real())
    r = SymNum.from_z3(z)
    return r.lower()


def sym_max(a, b):
    r = (a >= b)
    return ite(r, a, b)


def sym_min(a, b):
    r = (a <= b)
    return ite(r, a, b)


def is_sym(x):
    return isinstance(x, (SymNum, SymBool))


# ---------------------------------------------------------------------------------------------------
# context / exploration
# ---------------------------------------------------------------------------------------------------
class Decision:
    __slots__ = ('h', 'taken', 'alt', 'hint', 'alt_model', 'kind')

    def __init__(self, h, taken, alt, hint=None, alt_model=None, kind='br'):
        self.h = h
        self.taken = taken
        self.alt = alt  # True if the other side still has to be explored
        self.hint = hint
        self.alt_model = alt_model
        self.kind = kind


class Stats:
    def __init__(self):
        self.queries = 0
        self.solver_s = 0.0
        self.branches = 0  # decisions where both sides were feasible
        self.implied = 0
        self.realizations = 0
        self.unknown_branch = 0

    def as_dict(self):
        return dict(self.__dict__)


class Goal:
    __slots__ = ('label', 'status', 'model', 'detail')

    def __init__(self, label, status, model=None, detail=None):
        self.label = label
        self.status = status  # 'proved' | 'trivial' | 'violated' | 'unknown'
        self.model = model
        self.detail = detail


class Context:
    def __init__(self, prefix=(), timeout_ms=20000, max_decisions=100000, start_model=None):
        self.solver = z3.Solver()
        self.solver.set('timeout', timeout_ms)
        self.timeout_ms = timeout_ms
        self.pc = []
        self.prefix = list(prefix)
        self.trace = []
        self.stats = Stats()
        self.model = None
        self._start_model = start_model
        self.goals = []
        self.hash_mode = 'realize'
        self.deadline = None
        self.affine_atoms = set()
        self.hashed_keys = {}
        self.fresh_counter = {}
        self.inputs = {}  # name -> SymNum (registered inputs, for model extraction)
        self.funcs = {}  # name -> (z3 func, arity)
        self.func_apps = {}  # name -> list of (args SymNum/consts, out index)
        self.max_decisions = max_decisions
        self.observations = []
        self.assumption_notes = []

    # -- naming -----------------------------------------------------------------------------------
    def fresh_name(self, base):
        n = self.fresh_counter.get(base, 0)
        self.fresh_counter[base] = n + 1
        return '%s!%d' % (base, n)

    def fresh_real(self, base):
        name = self.fresh_name(base)
        v = SymNum.from_z3(z3.Real(name))
        self.inputs[name] = v
        return v

    def fresh_int(self, base):
        name = self.fresh_name(base)
        v = SymNum.from_z3(z3.Int(name))
        self.inputs[name] = v
        return v

    # -- solver -----------------------------------------------------------------------------------
    def _check(self, *assumptions):
        if self.deadline is not None and time.time() > self.deadline:
            raise PathLimit('job time budget exhausted')
        t = time.perf_counter()
        r = self.solver.check(*assumptions)
        self.stats.solver_s += time.perf_counter() - t
        self.stats.queries += 1
        return r

    def add_pc(self, z):
        self.pc.append(z)
        self.solver.add(z)

    def get_model(self):
        if self.model is None:
            r = self._check()
            if r == z3.sat:
                self.model = self.solver.model()
            elif r == z3.unsat:
                raise PathInfeasible()
        return self.model

    def implied_sign(self, z):
        """+1 if the path condition implies z >= 0, -1 if it implies z <= 0, else 0 (not a decision: a pure function of the path)."""
        zero = z3.IntVal(0) if z.sort().kind() == z3.Z3_INT_SORT else z3.RealVal(0)
        if self._check(z < zero) == z3.unsat:
            return 1
        if self._check(z > zero) == z3.unsat:
            return -1
        return 0

    def _eval(self, model, c):
        try:
            v = model.eval(c, model_completion=True)
        except z3.Z3Exception:
            return None
        if z3.is_true(v):
            return True
        if z3.is_false(v):
            return False
        return None

    def branch(self, cond, hint=None, kind='br'):
        c = z3.simplify(cond)
        if z3.is_true(c):
            return True
        if z3.is_false(c):
            return False
        pos = len(self.trace)
        # alignment key: structural hash of the *unsimplified* term (built deterministically by the proxies);
        # the simplifier orders arguments by AST id, which differs between re-executions
        h = cond.hash()
        if pos < len(self.prefix):
            d = self.prefix[pos]
            if d.h != h:
                raise RuntimeError('replay drift at decision %d: %s' % (pos, c.sexpr()[:300]))
            self.trace.append(d)
            self.add_pc(c if d.taken else z3.Not(c))
            if pos == len(self.prefix) - 1:
                # end of the replayed prefix: the model that showed this side feasible is valid now
                self.model = self._start_model
            else:
                self.model = None  # a model computed for a shorter prefix is stale now
            return d.taken
        if pos >= self.max_decisions:
            raise PathLimit('more than %d decisions on one path' % self.max_decisions)
        m = self.model
        side = self._eval(m, c) if m is not None else None
        feas = {}
        models = {}
        for s in (True, False):
            if side is s:
                feas[s] = 'sat'
                models[s] = m
                continue
            lit = c if s else z3.Not(c)
            r = self._check(lit)
            if r == z3.sat:
                feas[s] = 'sat'
                models[s] = self.solver.model()
            elif r == z3.unsat:
                feas[s] = 'unsat'
            else:
                feas[s] = 'unknown'
                models[s] = None
                self.stats.unknown_branch += 1
        ok = [s for s in (True, False) if feas[s] != 'unsat']
        if not ok:
            raise PathInfeasible()
        if len(ok) == 1:
            taken = ok[0]
            self.stats.implied += 1
            d = Decision(h, taken, False, hint, None, kind)
        else:
            taken = side if side is not None else True
            self.stats.branches += 1
            d = Decision(h, taken, True, hint, models[not taken], kind)
        self.trace.append(d)
        self.add_pc(c if taken else z3.Not(c))
        self.model = models.get(taken)
        return taken

    # -- assumptions / goals ----------------------------------------------------------------------
    def assume_z3(self, z):
        z = z3.simplify(z)
        if z3.is_true(z):
            return
        if z3.is_false(z):
            raise PathInfeasible()
        self.add_pc(z)
        m = self.model
        if m is not None and self._eval(m, z) is True:
            return
        r = self._check()
        if r == z3.unsat:
            raise PathInfeasible()
        self.model = self.solver.model() if r == z3.sat else None

    def assume(self, cond):
        if isinstance(cond, SymBool):
            self.assume_z3(cond.z)
        elif isinstance(cond, SymNum):
            self.assume(cond != 0)
        elif not cond:
            raise PathInfeasible()

    def prove(self, cond, label, detail=None):
        """Check pc => cond.  Records the verdict; returns True iff proved."""
        if isinstance(cond, SymNum):
            cond = (cond != 0)
        if not isinstance(cond, SymBool):
            if cond:
                self.goals.append(Goal(label, 'trivial'))
                return True
            # concrete False on a feasible path: any model of pc is a counterexample
            m = None
            try:
                m = self.get_model()
            except PathInfeasible:
                return True
            if m is None:
                self.goals.append(Goal(label, 'unknown', None, 'path feasibility unknown'))
                return False
            self.goals.append(Goal(label, 'violated', m, detail))
            return False
        z = z3.simplify(cond.z)
        if z3.is_true(z):
            self.goals.append(Goal(label, 'trivial'))
            return True
        r = self._check(z3.Not(z))
        if r == z3.unsat:
            self.goals.append(Goal(label, 'proved'))
            return True
        if r == z3.sat:
            m = self.solver.model()
            # prefer a counterexample with moderate magnitudes (huge model values make the float replay pass within its
            # relative tolerance): one more query with bounds on the real-valued inputs, kept only if it is still sat
            try:
                bounds = []
                for v in self.inputs.values():
                    if isinstance(v, SymNum) and not v.is_int and not v.is_const():
                        bounds.append(z3.And(v.z3() >= -8, v.z3() <= 8))
                if bounds:
                    self.solver.set('timeout', min(self.timeout_ms, 5000))
                    # first choice: inputs on the lattice (1/8)Z within [-8, 8] (violations of linear goals are then not tiny)
                    lattice = []
                    for n, v in enumerate(self.inputs.values()):
                        if isinstance(v, SymNum) and not v.is_int and not v.is_const():
                            lattice.append(v.z3() * 8 == z3.ToReal(z3.Int('lat!%d' % n)))
                    r2 = self._check(z3.Not(z), *(bounds + lattice))
                    if r2 != z3.sat:
                        r2 = self._check(z3.Not(z), *bounds)
                    self.solver.set('timeout', self.timeout_ms)
                    if r2 == z3.sat:
                        m = self.solver.model()
            except (z3.Z3Exception, PathLimit):
                self.solver.set('timeout', self.timeout_ms)
            self.goals.append(Goal(label, 'violated', m, detail))
            return False
        # second chance: fresh non-incremental solver (stronger for nonlinear arithmetic)
        s2 = z3.Solver()
        s2.set('timeout', self.timeout_ms)
        s2.add(*self.pc)
        s2.add(z3.Not(z))
        t = time.perf_counter()
        r = s2.check()
        self.stats.solver_s += time.perf_counter() - t
        self.stats.queries += 1
        if r == z3.unsat:
            self.goals.append(Goal(label, 'proved'))
            return True
        if r == z3.sat:
            self.goals.append(Goal(label, 'violated', s2.model(), detail))
            return False
        self.goals.append(Goal(label, 'unknown', None, 'solver returned unknown: %s' % s2.reason_unknown()))
        return False

    def observe(self, name, value):
        self.observations.append((name, value))

    def hashed_keys_distinct(self):
        """Obligations of hash_mode 'normal_form': all recorded keys are pairwise different under the path condition.
        Returns (number of obligations, list of failures)."""
        keys = list(self.hashed_keys.values())
        n = 0
        bad = []
        for i in range(len(keys)):
            for j in range(i + 1, len(keys)):
                d = SymNum.coerce(keys[i] - keys[j])
                n += 1
                if d.is_const():
                    if d.const_value() == 0:
                        bad.append('equal keys with different normal forms')
                    continue
                r = self._check(d.z3() == 0)
                if r != z3.unsat:
                    bad.append('keys %s and %s may coincide (%s)' % (keys[i].describe(), keys[j].describe(), r))
        return n, bad


_CTX = [None]


def CTX():
    c = _CTX[0]
    if c is None:
        raise Unsupported('symbolic value used outside an exploration context')
    return c


def set_ctx(c):
    _CTX[0] = c


def realize_int(e):
    """Exhaustive value forking for a symbolic int that the code needs concretely."""
    e = SymNum.coerce(e)
    if e.is_const():
        return int(e.const_value())
    c = CTX()
    z = e.z3()
    while True:
        pos = len(c.trace)
        if pos < len(c.prefix) and c.prefix[pos].kind == 'real':
            v = c.prefix[pos].hint
        else:
            m = c.get_model()
            if m is None:
                raise Unsupported('cannot realise: no model (solver unknown)')
            v = m.eval(z, model_completion=True).as_long()
            c.stats.realizations += 1
        if c.branch(z == v, hint=v, kind='real'):
            return v


def model_value(model, x):
    """Exact rational value of x under a z3 model."""
    x = SymNum.coerce(x)
    if x.is_const():
        return x.const_value()
    v = model.eval(x.z3(), model_completion=True)
    if z3.is_int_value(v):
        return Fraction(v.as_long())
    if z3.is_rational_value(v):
        return Fraction(v.numerator_as_long(), v.denominator_as_long())
    if z3.is_algebraic_value(v):
        a = v.approx(30)
        return Fraction(a.numerator_as_long(), a.denominator_as_long())
    raise Unsupported('model value of %s is %s' % (x, v))


class PathResult:
    def __init__(self):
        self.outcome = None  # 'ok' | 'exception' | 'infeasible' | 'limit' | 'unsupported'
        self.exc = None
        self.goals = []
        self.ndecisions = 0
        self.value = None
        self.model = None
        self.ctx = None


def explore(fn, timeout_ms=20000, max_paths=100000, max_decisions=100000, on_path=None, deadline=None):
    """Depth-first exploration of ``fn(ctx)`` by re-execution.  Yields PathResult per feasible path."""
    prefix = []
    start_model = None
    total = Stats()
    npaths = 0
    results = []
    exhausted = True
    while True:
        ctx = Context(prefix, timeout_ms=timeout_ms, max_decisions=max_decisions, start_model=start_model)
        ctx.deadline = deadline
        if not prefix:
            ctx.model = None
        set_ctx(ctx)
        pr = PathResult()
        try:
            pr.value = fn(ctx)
            pr.outcome = 'ok'
        except PathInfeasible:
            pr.outcome = 'infeasible'
        except PathLimit as e:
            pr.outcome = 'limit'
            pr.exc = e
        except Unsupported as e:
            pr.outcome = 'unsupported'
            pr.exc = e
            import traceback
            pr.tb = traceback.format_exc()
        except RecursionError as e:  # pragma: no cover
            pr.outcome = 'unsupported'
            pr.exc = e
            import traceback
            pr.tb = '\n'.join(traceback.format_exc().splitlines()[:40])
        except Exception as e:
            pr.outcome = 'exception'
            pr.exc = e
            import traceback
            pr.tb = traceback.format_exc()
        finally:
            set_ctx(None)
        pr.goals = ctx.goals
        pr.ndecisions = len(ctx.trace)
        pr.ctx = ctx
        for k, v in ctx.stats.__dict__.items():
            setattr(total, k, getattr(total, k) + v)
        if pr.outcome != 'infeasible':
            npaths += 1
        if on_path is not None:
            on_path(pr)
        else:
            results.append(pr)
        # backtrack
        trace = ctx.trace
        i = len(trace) - 1
        while i >= 0 and not trace[i].alt:
            i -= 1
        if i < 0:
            break
        d = trace[i]
        nd = Decision(d.h, not d.taken, False, d.hint, None, d.kind)
        prefix = trace[:i] + [nd]
        start_model = d.alt_model
        if npaths >= max_paths or (deadline is not None and time.time() > deadline):
            exhausted = False
            break
    return results, total, npaths, exhausted
