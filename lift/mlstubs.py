"""Reference stand-ins for the sklearn pieces the library uses on data arrays (sklearn validates inputs to float arrays, so
proxies cannot pass through it).  Contracts follow the sklearn documentation; each stub is validated against sklearn on concrete
data by validate()."""
import itertools
import types

import numpy as _np

from . import core, lib
from .core import is_sym, Unsupported


class RefMinMaxScaler:
    """sklearn.preprocessing.MinMaxScaler (documented formula):
        scale_ = (max - min) / data_range with zero ranges replaced by 1;  min_ = min - data_min_ * scale_;  X*scale_ + min_."""

    def __init__(self, feature_range=(0, 1), copy=True, clip=False):
        self.feature_range = feature_range

    def fit(self, X):
        fr = self.feature_range
        if not isinstance(fr, tuple):
            # sklearn >= 1.x validates the parameter type
            raise TypeError("The 'feature_range' parameter of MinMaxScaler must be an instance of 'tuple'. Got %r instead." % (fr,))
        if fr[0] >= fr[1]:
            raise ValueError('Minimum of desired feature range must be smaller than maximum. Got %s.' % str(fr))
        X = _np.asarray(X, dtype=object)
        if X.ndim != 2:
            raise ValueError('Expected 2D array, got %dD array instead' % X.ndim)
        if X.shape[0] == 0:
            raise ValueError('Found array with 0 sample(s) (shape=%s) while a minimum of 1 is required by MinMaxScaler.' % (X.shape,))
        n, d = X.shape
        self.data_min_ = _np.empty(d, dtype=object)
        self.data_max_ = _np.empty(d, dtype=object)
        for k in range(d):
            lo = hi = X[0, k]
            for i in range(1, n):
                if X[i, k] < lo:
                    lo = X[i, k]
                if X[i, k] > hi:
                    hi = X[i, k]
            self.data_min_[k], self.data_max_[k] = lo, hi
        self.data_range_ = self.data_max_ - self.data_min_
        rng = _np.empty(d, dtype=object)
        for k in range(d):
            rng[k] = 1.0 if self.data_range_[k] == 0 else self.data_range_[k]
        self.scale_ = (fr[1] - fr[0]) / rng
        self.min_ = fr[0] - self.data_min_ * self.scale_
        self.n_samples_seen_ = n
        return self

    def transform(self, X):
        X = _np.asarray(X, dtype=object)
        return X * self.scale_ + self.min_

    def fit_transform(self, X, y=None):
        return self.fit(X).transform(X)

    def inverse_transform(self, X):
        X = _np.asarray(X, dtype=object)
        return (X - self.min_) / self.scale_


class _Preprocessing(types.ModuleType):
    def __init__(self):
        super().__init__('preprocessing_facade')
        self.MinMaxScaler = RefMinMaxScaler

    def __getattr__(self, name):
        from sklearn import preprocessing
        return getattr(preprocessing, name)


PREPROCESSING = _Preprocessing()


def ref_shuffle(seq, **kw):
    """sklearn.utils.shuffle contract: some permutation of the input (consistent across the given sequence).  The permutation is
    chosen by the solver (exhaustive value forking over all n! permutations)."""
    seq = list(seq)
    n = len(seq)
    perms = list(itertools.permutations(range(n)))
    S = lib.current_source()
    c = S.choice(S.fresh_name('perm'), len(perms))
    return [seq[i] for i in perms[c]]


def ref_mean_squared_error(y_true, y_pred, **kw):
    """sklearn.metrics.mean_squared_error (documented formula for 1-D / column targets): mean((y_true - y_pred)**2)."""
    a = [v for v in _np.asarray(y_true, dtype=object).flat]
    b = [v for v in _np.asarray(y_pred, dtype=object).flat]
    if len(a) != len(b):
        raise ValueError('Found input variables with inconsistent numbers of samples: [%d, %d]' % (len(a), len(b)))
    tot = 0
    for u, v in zip(a, b):
        tot = tot + (u - v) * (u - v)
    return tot / len(a)


MSE_HOOK = [None]


class _Metrics(types.ModuleType):
    def __init__(self):
        super().__init__('sklearn_metrics_facade')

    @staticmethod
    def mean_squared_error(y_true, y_pred, **kw):
        if MSE_HOOK[0] is not None:
            return MSE_HOOK[0](y_true, y_pred)
        return ref_mean_squared_error(y_true, y_pred, **kw)

    def __getattr__(self, name):
        import sklearn.metrics
        return getattr(sklearn.metrics, name)


class _Sklearn(types.ModuleType):
    def __init__(self):
        super().__init__('sklearn_facade')
        self.metrics = _Metrics()
        self.preprocessing = PREPROCESSING

    def __getattr__(self, name):
        import sklearn
        import importlib
        try:
            return getattr(sklearn, name)
        except AttributeError:
            return importlib.import_module('sklearn.' + name)


SKLEARN = _Sklearn()


def ml_shims():
    return [(None, 'preprocessing', PREPROCESSING), ('sparseSpACE.DEMachineLearning', 'shuffle', ref_shuffle), ('sparseSpACE.GridOperation', 'sklearn', SKLEARN)]


def validate():
    from sklearn.preprocessing import MinMaxScaler
    rng = _np.random.RandomState(1)
    for _ in range(5):
        X = rng.rand(6, 3) * 10 - 5
        X[:, 1] = 2.5  # zero range column
        for fr in ((0, 1), (-2.0, 3.0)):
            a = MinMaxScaler(feature_range=fr).fit(X)
            b = RefMinMaxScaler(feature_range=fr).fit(X)
            if not (_np.allclose(a.scale_, b.scale_.astype(float)) and _np.allclose(a.min_, b.min_.astype(float)) and
                    _np.allclose(a.transform(X), b.transform(X).astype(float))):
                raise RuntimeError('MinMaxScaler stub disagrees with sklearn')
    for bad in ([0, 1],):
        try:
            MinMaxScaler(feature_range=bad).fit(_np.zeros((2, 1)))
            real = None
        except Exception as e:
            real = type(e).__name__
        try:
            RefMinMaxScaler(feature_range=bad).fit(_np.zeros((2, 1)))
            mine = None
        except Exception as e:
            mine = type(e).__name__
        if (real is None) != (mine is None):
            raise RuntimeError('MinMaxScaler stub parameter validation differs from sklearn: %r vs %r' % (real, mine))
    from sklearn.metrics import mean_squared_error
    for _ in range(3):
        a, b = rng.rand(5), rng.rand(5)
        if abs(mean_squared_error(a, b) - float(ref_mean_squared_error(a, b))) > 1e-12 or \
                abs(mean_squared_error(a, b.reshape(5, 1)) - float(ref_mean_squared_error(a, b.reshape(5, 1)))) > 1e-12:
            raise RuntimeError('mean_squared_error stub disagrees with sklearn')
    return True
