"""Job runner: explores harness bodies symbolically (lifted mode), validates paths and replays
counterexamples concretely on the unshimmed library, aggregates, writes evidence, sets the exit code.

A *harness body* is ``fn(S, **params)`` where S is a Source:
  lifted   -> proxies, assumptions extend the path condition, ``prove`` asks the solver
  concrete -> floats/ints taken from a solver model, ``prove`` evaluates with a rounding tolerance
The same body therefore serves as encoding, as translator validation and as replay script.
"""
import hashlib
import json
import logging
import multiprocessing as mp
import os
import shutil
import sys
import tempfile
import time
import traceback
from fractions import Fraction

import z3

from . import core, shim
from .core import SymNum, SymBool, Unsupported, is_sym

VERIF = os.path.dirname(os.path.dirname(os.path.abspath(__file__)))
EXIT_OK, EXIT_VIOLATION, EXIT_INCONCLUSIVE = 0, 1, 2
# evidence of the registered commands always goes to /verif/evidence; the override is only used when a check is pointed at a scratch
# tree with a seeded change (VERIF_REPO=...), so that the committed evidence is not overwritten
EVIDENCE_DIR = os.environ.get('VERIF_EVIDENCE_DIR') or os.path.join(os.path.dirname(os.path.dirname(os.path.abspath(__file__))), 'evidence')
CONC_TOL = 1e-8
CONCRETE_RUN_LIMIT_S = 60.0
VALIDATION_RETRIES = 4


class ConcreteAssumeFailed(BaseException):
    pass


class ExpectedRaise(Exception):
    pass


# ---------------------------------------------------------------------------------------------------
# sources
# ---------------------------------------------------------------------------------------------------
class UFunc:
    """Uninterpreted function R^d -> R^out (lifted) — all the solver knows about f is congruence."""

    def __init__(self, ctx, name, dim, out_len):
        self.name, self.dim, self.out_len = name, dim, out_len
        self.fs = [z3.Function('%s_%d' % (name, k), *([z3.RealSort()] * (dim + 1))) for k in range(out_len)]
        self.apps = []
        self.ctx = ctx

    def __call__(self, coords):
        coords = [SymNum.coerce(c) for c in coords]
        assert len(coords) == self.dim, (len(coords), self.dim)
        zs = [c.z3real() for c in coords]
        self.apps.append(coords)
        out = []
        for f in self.fs:
            r = SymNum.from_z3(f(*zs))
            out.append(r)
        return out

    def table(self, model):
        rows = []
        seen = set()
        for coords in self.apps:
            key = tuple(float(core.model_value(model, c)) for c in coords)
            if key in seen:
                continue
            seen.add(key)
            zs = [c.z3real() for c in coords]
            vals = [float(core.model_value(model, SymNum.from_z3(f(*zs)))) for f in self.fs]
            rows.append([list(key), vals])
        return rows


class ConcreteFunc:
    def __init__(self, name, dim, out_len, rows):
        self.name, self.dim, self.out_len = name, dim, out_len
        self.rows = [(tuple(k), list(v)) for k, v in rows]
        self.tab = {k: v for k, v in self.rows}
        self.misses = 0

    def __call__(self, coords):
        key = tuple(float(c) for c in coords)
        v = self.tab.get(key)
        if v is None:
            for k, vv in self.rows:
                if all(abs(a - b) <= 1e-9 * max(1.0, abs(a)) for a, b in zip(k, key)):
                    v = vv
                    break
        if v is None:
            self.misses += 1
            # deterministic default off the table: a fixed generic smooth-free value per output
            v = [0.0] * self.out_len
        return list(v)


class LiftedSource:
    lifted = True

    def __init__(self, ctx):
        self.ctx = ctx
        self.funcs = {}
        self.notes = []

    def real(self, name):
        v = SymNum.from_z3(z3.Real(name))
        self.ctx.inputs[name] = v
        return v

    def int(self, name):
        v = SymNum.from_z3(z3.Int(name))
        self.ctx.inputs[name] = v
        return v

    def fresh_name(self, base):
        return self.ctx.fresh_name(base)

    def fresh_real(self, base):
        return self.real(self.fresh_name(base))

    def fresh_int(self, base):
        return self.int(self.fresh_name(base))

    def func(self, name, dim, out_len=1):
        f = UFunc(self.ctx, name, dim, out_len)
        self.funcs[name] = f
        return f

    def assume(self, cond):
        self.ctx.assume(cond)

    def prove(self, cond, label, detail=None):
        return self.ctx.prove(cond, label, detail)

    def eq(self, a, b, scale=1.0, tol=None):
        """a == b: exact in lifted mode unless tol is given (then |a-b| <= tol*scale)."""
        if tol is None:
            return a == b
        return abs(a - b) <= tol * scale

    def close(self, a, b, tol=1e-12, scale=None):
        """a ~ b as polynomials in the solver variables: every coefficient of a-b is at most tol times the largest coefficient of b
        (used where the library itself computes with inexact float constants such as 1/3).  Implies |a-b| <= tol*max|coef(b)|*sum|monomials|.
        If that syntactic check fails (e.g. on a path whose condition pins a variable, where a-b need not vanish identically) and a
        scale is given, the obligation |a-b| <= tol*scale is returned for the solver instead."""
        d = SymNum.coerce(a - b)
        bb = SymNum.coerce(b)
        ref = max([abs(c) for c in bb.terms.values()] + [Fraction(1)])
        if all(abs(c) <= Fraction(tol) * ref for c in d.terms.values()):
            return True
        if scale is None:
            if not isinstance(d, SymNum) or d.is_const():
                return False
            # semantic fallback implied by the syntactic criterion: |a-b| <= tol*ref*(1 + sum of |monomials|); gives the solver a
            # condition to refute with a witness (a plain False would be "refuted" by an arbitrary model, e.g. all zeros)
            M = 1
            for m in d.terms:
                if m:
                    M = M + abs(SymNum({m: Fraction(1)}, False))
            return abs(d) <= M * (Fraction(tol) * ref)
        return abs(a - b) <= scale * tol

    def observe(self, name, value):
        self.ctx.observations.append((name, value))

    def note(self, s):
        self.notes.append(s)

    def choice(self, name, n):
        """Arbitrary integer in range(n), realised by exhaustive forking."""
        v = self.int(name)
        self.ctx.assume(v >= 0)
        self.ctx.assume(v < n)
        return core.realize_int(v)

    def flag(self, name):
        return bool(self.choice(name, 2))


class PinnedSource(LiftedSource):
    """Lifted machinery (shims, object arrays, proxies) but every input pinned to the float the real run uses.
    Used to tell rounding of a solver model at a branch boundary from a genuine shim/encoding mismatch."""

    def __init__(self, ctx, values, tables):
        super().__init__(ctx)
        self.values = values
        self.tables = tables
        self.counter = {}

    def real(self, name):
        return float(Fraction(self.values.get(name, 0)))

    def int(self, name):
        return int(Fraction(self.values.get(name, 0)))

    def _fresh(self, base):
        n = self.counter.get(base, 0)
        self.counter[base] = n + 1
        return '%s!%d' % (base, n)

    def fresh_name(self, base):
        return self._fresh(base)

    def fresh_real(self, base):
        return self.real(self._fresh(base))

    def fresh_int(self, base):
        return self.int(self._fresh(base))

    def func(self, name, dim, out_len=1):
        f = ConcreteFunc(name, dim, out_len, self.tables.get(name, []))
        self.funcs[name] = f
        return f

    def choice(self, name, n):
        return self.int(name)

    def flag(self, name):
        return bool(self.int(name))

    def assume(self, cond):
        if is_sym(cond):
            self.ctx.assume(cond)
        elif not cond:
            raise ConcreteAssumeFailed()

    def eq(self, a, b, scale=1.0, tol=None):
        if is_sym(a) or is_sym(b):
            return a == b
        a = float(a)
        b = float(b)
        return abs(a - b) <= CONC_TOL * max(1.0, abs(scale), abs(a), abs(b))


def run_pinned(job, vals, tables):
    """Observations of the harness run through the lifted machinery on pinned (float) inputs."""
    out = {}

    def body(ctx):
        S = PinnedSource(ctx, vals, tables)
        ctx.S = S
        from . import lib as _lib
        _lib._SOURCE[0] = S
        ctx.hash_mode = job.hash_mode
        with _quiet():
            job.fn(S, **job.params)
        out['obs'] = list(ctx.observations)
        out['ctx'] = ctx

    if job.use_shim:
        shim.install(extra=job.extra_shims)
    try:
        try:
            core.explore(body, timeout_ms=job.timeout_ms, max_paths=1)
        except BaseException:
            return None
    finally:
        core.set_ctx(None)
    return out


class ConcreteSource:
    lifted = False

    def __init__(self, values, tables):
        self.values = values
        self.tables = tables
        self.goals = []  # (label, ok, detail)
        self.observations = []
        self.missing = []
        self.counter = {}
        self.funcs = {}
        self.notes = []

    def _get(self, name):
        if name not in self.values:
            self.missing.append(name)
            return Fraction(0)
        return Fraction(self.values[name])

    def real(self, name):
        return float(self._get(name))

    def int(self, name):
        return int(self._get(name))

    def _fresh(self, base):
        n = self.counter.get(base, 0)
        self.counter[base] = n + 1
        return '%s!%d' % (base, n)

    def fresh_name(self, base):
        return self._fresh(base)

    def fresh_real(self, base):
        return self.real(self._fresh(base))

    def fresh_int(self, base):
        return self.int(self._fresh(base))

    def func(self, name, dim, out_len=1):
        f = ConcreteFunc(name, dim, out_len, self.tables.get(name, []))
        self.funcs[name] = f
        return f

    def assume(self, cond):
        if not cond:
            raise ConcreteAssumeFailed()

    def prove(self, cond, label, detail=None):
        ok = bool(cond)
        self.goals.append((label, ok, detail))
        return ok

    def eq(self, a, b, scale=1.0, tol=None):
        a = float(a)
        b = float(b)
        return abs(a - b) <= CONC_TOL * max(1.0, abs(scale), abs(a), abs(b))

    def close(self, a, b, tol=1e-12, scale=None):
        a = float(a)
        b = float(b)
        return abs(a - b) <= CONC_TOL * max(1.0, abs(a), abs(b))

    def observe(self, name, value):
        self.observations.append((name, value))

    def note(self, s):
        self.notes.append(s)

    def choice(self, name, n):
        return self.int(name)

    def flag(self, name):
        return bool(self.int(name))


# ---------------------------------------------------------------------------------------------------
# jobs
# ---------------------------------------------------------------------------------------------------
class Job:
    def __init__(self, name, fn, params=None, timeout_ms=20000, max_paths=200000, validate=1, budget_s=None,
                 expect_raises=(), hash_mode='realize', family=None, max_decisions=100000, use_shim=True, allow_limit=False, extra_shims=None):
        self.name = name
        self.fn = fn
        self.params = params or {}
        self.timeout_ms = timeout_ms
        self.max_paths = max_paths
        self.validate = validate  # validate every k-th path concretely (0 = never)
        self.budget_s = budget_s
        self.expect_raises = expect_raises
        self.hash_mode = hash_mode
        self.family = family or name.split('[')[0]
        self.max_decisions = max_decisions
        self.use_shim = use_shim
        self.extra_shims = extra_shims  # [(module name or None, global name, replacement)] installed together with the standard shim
        self.allow_limit = allow_limit  # paths cut by max_decisions are counted (non-terminating library loop), not an error


def _values_from_model(ctx, S, model):
    vals = {}
    for name, v in ctx.inputs.items():
        try:
            vals[name] = core.model_value(model, v)
        except Exception:
            vals[name] = Fraction(0)
    tables = {name: f.table(model) for name, f in S.funcs.items()}
    return vals, tables


def _jsonable_values(vals):
    out = {}
    for k, v in vals.items():
        v = Fraction(v)
        out[k] = int(v) if v.denominator == 1 else '%d/%d' % (v.numerator, v.denominator)
    return out


def _parse_values(jvals):
    return {k: Fraction(v) for k, v in jvals.items()}


def run_concrete(job, vals, tables):
    """Run the harness body on the real, unshimmed library with concrete inputs."""
    was = bool(shim._installed)
    shim.uninstall()
    S = ConcreteSource(vals, tables)
    from . import lib as _lib
    _lib._SOURCE[0] = S
    res = {'goals': [], 'exception': None, 'assume_failed': False, 'missing': [], 'timeout': False}
    import signal

    class _ConcreteTimeout(BaseException):
        pass

    def _alarm(signum, frame):
        raise _ConcreteTimeout()

    prev_handler = None
    prev_left = 0.0
    try:
        prev_handler = signal.signal(signal.SIGALRM, _alarm)
        prev_left = signal.setitimer(signal.ITIMER_REAL, CONCRETE_RUN_LIMIT_S)[0]
    except (ValueError, OSError):
        prev_handler = None
    t_start = time.time()
    try:
        with _quiet():
            job.fn(S, **job.params)
    except _ConcreteTimeout:
        res['timeout'] = True  # the real library does not terminate on this input within the limit (reported as skipped)
    except ConcreteAssumeFailed:
        res['assume_failed'] = True
    except Exception as e:
        res['exception'] = '%s: %s' % (type(e).__name__, e)
        res['exception_type'] = type(e).__name__
        res['tb'] = traceback.format_exc()[-1500:]
    finally:
        try:
            if prev_handler is not None:
                signal.signal(signal.SIGALRM, prev_handler)
                signal.setitimer(signal.ITIMER_REAL, max(prev_left - (time.time() - t_start), 1.0) if prev_left else 0)
        except (ValueError, OSError):
            pass
        if was:
            shim.install(extra=job.extra_shims)
    res['goals'] = S.goals
    res['observations'] = S.observations
    res['missing'] = S.missing
    res['fmisses'] = sum(f.misses for f in S.funcs.values())
    return res


class _quiet:
    def __enter__(self):
        self.o = sys.stdout
        sys.stdout = open(os.devnull, 'w')

    def __exit__(self, *a):
        sys.stdout.close()
        sys.stdout = self.o


def run_job(job, seed=0):
    """Explore one job.  Returns a JSON-able summary."""
    t0 = time.time()
    budget = job.budget_s or (600 if os.environ.get('VERIF_TIER', 'quick') == 'quick' else 3000)
    deadline = t0 + budget
    summ = {'job': job.name, 'family': job.family, 'params': _jsonable_params(job.params), 'paths': 0,
            'decisions': 0, 'proved': 0, 'trivial': 0, 'unknown': [], 'violations': [], 'errors': [],
            'validated': 0, 'validation_skipped': 0, 'validation_mismatch': [], 'samples': [], 'infeasible': 0,
            'expected_raises': 0, 'labels': {}}
    counter = [0]

    def body(ctx):
        ctx.hash_mode = job.hash_mode
        S = LiftedSource(ctx)
        ctx.S = S
        from . import lib as _lib
        _lib._SOURCE[0] = S
        with _quiet():
            return job.fn(S, **job.params)

    def on_path(pr):
        ctx = pr.ctx
        S = getattr(ctx, 'S', None)
        if pr.outcome == 'infeasible':
            summ['infeasible'] += 1
            return
        summ['paths'] += 1
        idx = summ['paths']
        summ['decisions'] += pr.ndecisions
        if pr.outcome == 'limit' and job.allow_limit and 'decisions' in str(pr.exc):
            summ['cut_paths'] = summ.get('cut_paths', 0) + 1
            return
        if pr.outcome in ('unsupported', 'limit'):
            summ['errors'].append({'kind': pr.outcome, 'msg': str(pr.exc)[:500], 'path': idx,
                                   'tb': '\n'.join(getattr(pr, 'tb', '').splitlines()[-14:])})
            return
        for g in pr.goals:
            summ['labels'][g.label] = summ['labels'].get(g.label, 0) + 1
            if g.status == 'proved':
                summ['proved'] += 1
            elif g.status == 'trivial':
                summ['trivial'] += 1
            elif g.status == 'unknown':
                summ['unknown'].append({'label': g.label, 'detail': g.detail, 'path': idx})
            elif g.status == 'violated':
                _handle_violation(job, summ, ctx, S, g.model, g.label, g.detail, None)
        if getattr(ctx, 'hashed_keys', None):
            try:
                core.set_ctx(ctx)
                nob, bad = ctx.hashed_keys_distinct()
            except BaseException as e:
                nob, bad = 0, ['distinctness check failed: %r' % (e,)]
            finally:
                core.set_ctx(None)
            summ['proved'] += nob - len(bad)
            summ['labels']['engine:hashed-keys-pairwise-distinct'] = summ['labels'].get('engine:hashed-keys-pairwise-distinct', 0) + nob
            for bmsg in bad[:3]:
                summ['errors'].append({'kind': 'hash-soundness', 'msg': bmsg, 'path': idx})
        if pr.outcome == 'exception':
            et = type(pr.exc).__name__
            if any(isinstance(pr.exc, e) for e in job.expect_raises):
                summ['expected_raises'] += 1
            else:
                m = None
                try:
                    core.set_ctx(ctx)
                    m = ctx.get_model()
                except BaseException:
                    m = None
                finally:
                    core.set_ctx(None)
                label = 'exception:%s' % et
                if m is None:
                    summ['unknown'].append({'label': label, 'detail': str(pr.exc)[:300], 'path': idx})
                else:
                    _handle_violation(job, summ, ctx, S, m, label, str(pr.exc)[:300] + '\n' + getattr(pr, 'tb', '')[-1200:],
                                      et)
            return
        # translator validation on (a subset of) paths
        if job.validate and S is not None and (idx - 1 + seed) % job.validate == 0:
            try:
                core.set_ctx(ctx)
                m = ctx.get_model()
            except BaseException:
                m = None
            finally:
                core.set_ctx(None)
            attempt = 0
            outcome = None
            first_mismatch = None
            vals = tables = None
            first_goalfail = None
            proved_here = {}
            for g in pr.goals:
                proved_here[g.label] = proved_here.get(g.label, True) and g.status in ('proved', 'trivial')
            while m is not None:
                vals, tables = _values_from_model(ctx, S, m)
                outcome, info = _validate_once(job, ctx, m, vals, tables)
                if outcome == 'violation' and info[2] is None and proved_here.get(info[0], False):
                    # The goal is proved for ALL real inputs of this path, yet the float run at this particular model misses it by more than
                    # the tolerance: float rounding at an ill-conditioned model (outside the exact-arithmetic claim) or an encoding mismatch.
                    # Other models of the same path decide: if one of them passes, the first was rounding; if none does, it is reported.
                    if first_goalfail is None:
                        first_goalfail = (info, vals, tables)
                    attempt += 1
                    if attempt > VALIDATION_RETRIES:
                        break
                    m = _another_model(ctx, vals)
                    continue
                if outcome != 'mismatch':
                    break
                if first_mismatch is None:
                    first_mismatch = (info, vals)
                attempt += 1
                if attempt > VALIDATION_RETRIES:
                    break
                # a model on a branch boundary can flip a comparison under float rounding: try another model of the same path
                m = _another_model(ctx, vals)
            if m is None and first_mismatch is not None:
                outcome, info = 'mismatch', first_mismatch[0]
                vals = first_mismatch[1]
            if first_goalfail is not None:
                if outcome == 'validated':
                    summ['goal_missed_by_float_rounding_at_one_model'] = summ.get('goal_missed_by_float_rounding_at_one_model', 0) + 1
                else:
                    outcome, info = 'violation', first_goalfail[0]
                    vals, tables = first_goalfail[1], first_goalfail[2]
            if outcome == 'validated':
                summ['validated'] += 1
                if attempt:
                    summ['validated_after_retry'] = summ.get('validated_after_retry', 0) + 1
            elif outcome == 'skipped':
                summ['validation_skipped'] += 1
            elif outcome == 'violation':
                _record_violation(job, summ, vals, tables, info[0], info[1], True, info[2])
            elif outcome == 'mismatch':
                summ['validation_mismatch'].append({'path': idx, 'why': first_mismatch[0] if first_mismatch else info,
                                                    'values': _jsonable_values(first_mismatch[1] if first_mismatch else vals)})
            if vals is not None and len(summ['samples']) < 3:
                summ['samples'].append({'path': idx, 'decisions': pr.ndecisions, 'model': _short(_jsonable_values(vals)),
                                        'goals': [g.label for g in pr.goals][:8]})
        elif len(summ['samples']) < 2:
            summ['samples'].append({'path': idx, 'decisions': pr.ndecisions, 'goals': [g.label for g in pr.goals][:8]})

    if job.use_shim:
        shim.install(extra=job.extra_shims)
    import signal

    def _alarm(signum, frame):
        # wall-clock guard for library loops that never reach the solver (the deadline is otherwise checked at solver calls)
        signal.setitimer(signal.ITIMER_REAL, 5)
        raise core.PathLimit('job time budget exhausted (wall clock)')

    old_handler = None
    try:
        old_handler = signal.signal(signal.SIGALRM, _alarm)
        signal.setitimer(signal.ITIMER_REAL, budget + 20)
    except (ValueError, OSError):
        old_handler = None
    try:
        _, stats, npaths, exhausted = core.explore(body, timeout_ms=job.timeout_ms, max_paths=job.max_paths,
                                                   on_path=on_path, deadline=deadline,
                                                   max_decisions=job.max_decisions)
    finally:
        try:
            signal.setitimer(signal.ITIMER_REAL, 0)
            if old_handler is not None:
                signal.signal(signal.SIGALRM, old_handler)
        except (ValueError, OSError):
            pass
        shim.uninstall()
    summ.update(stats.as_dict())
    summ['exhausted'] = exhausted
    if not exhausted:
        summ['errors'].append({'kind': 'budget', 'msg': 'exploration stopped by path/time budget before exhausting'})
    if summ['paths'] == 0:
        summ['errors'].append({'kind': 'vacuous', 'msg': 'no feasible path'})
    if summ['proved'] + summ['trivial'] == 0 and not summ['violations'] and not summ['unknown']:
        summ['errors'].append({'kind': 'vacuous', 'msg': 'no goal was reached on any path'})
    summ['wall_s'] = round(time.time() - t0, 3)
    return summ


def _validate_once(job, ctx, m, vals, tables):
    res = run_concrete(job, vals, tables)
    if res['assume_failed'] or res['missing'] or res.get('timeout'):
        return 'skipped', None
    if res['exception']:
        # the real library raises on a solver-generated input of a feasible path: a replayed failure
        return 'violation', ('exception:%s' % res.get('exception_type'),
                             'concrete run of a feasible path raised ' + res['exception'] + ' | ' + res.get('tb', '')[-600:], res.get('exception_type'))
    bad = [l for (l, ok, _) in res['goals'] if not ok]
    if bad:
        return 'violation', (bad[0], 'concrete run of a feasible path violates the goal', None)
    mism = _compare_obs(ctx, m, res['observations'])
    if not mism:
        return 'validated', None
    # rounding of the model at a branch boundary, or a genuine shim mismatch?  Re-run the lifted machinery on exactly the floats
    # the real run used and compare again.
    pin = run_pinned(job, vals, tables)
    shim.install(extra=job.extra_shims)
    mism2 = 'pinned run failed'
    if pin is not None and 'obs' in pin:
        mism2 = _compare_obs_lists(pin['obs'], res['observations'])
    if mism2:
        return 'mismatch', mism + ' | pinned: ' + str(mism2)
    return 'skipped', None


def _another_model(ctx, vals):
    """A model of the same path condition that differs from the given input values (away from the previous point)."""
    try:
        core.set_ctx(ctx)
        diffs = []
        for name, v in ctx.inputs.items():
            if isinstance(v, SymNum) and not v.is_int and not v.is_const() and name in vals:
                c = vals[name]
                diffs.append(z3.Or(v.z3() >= z3.Q(c.numerator, c.denominator) + z3.Q(1, 16), v.z3() <= z3.Q(c.numerator, c.denominator) - z3.Q(1, 16)))
        if not diffs:
            return None
        ctx.solver.push()
        try:
            ctx.solver.add(z3.And(*diffs))
            r = ctx.solver.check()
            if r != z3.sat:
                ctx.solver.add(z3.BoolVal(True))
                ctx.solver.pop()
                ctx.solver.push()
                ctx.solver.add(z3.Or(*diffs))
                r = ctx.solver.check()
            return ctx.solver.model() if r == z3.sat else None
        finally:
            ctx.solver.pop()
    except BaseException:
        return None
    finally:
        core.set_ctx(None)


def _short(d, n=12):
    return {k: d[k] for k in list(d)[:n]}


def _jsonable_params(p):
    out = {}
    for k, v in p.items():
        try:
            json.dumps(v)
            out[k] = v
        except TypeError:
            out[k] = repr(v)
    return out


def _compare_obs(ctx, model, conc_obs):
    lifted = ctx.observations
    if len(lifted) != len(conc_obs):
        return 'observation count differs (%d lifted, %d concrete)' % (len(lifted), len(conc_obs))
    for (n1, v1), (n2, v2) in zip(lifted, conc_obs):
        if n1 != n2:
            return 'observation order differs (%s vs %s)' % (n1, n2)
        a = _flat(v1)
        b = _flat(v2)
        if len(a) != len(b):
            return 'observation %s: shape differs (%d vs %d)' % (n1, len(a), len(b))
        for x, y in zip(a, b):
            if isinstance(x, SymBool):
                x = ctx._eval(model, x.z)
            elif isinstance(x, SymNum):
                x = float(core.model_value(model, x))
            if isinstance(x, (bool,)) or isinstance(y, (bool,)):
                if bool(x) != bool(y):
                    return 'observation %s: %r vs %r' % (n1, x, y)
                continue
            if x is None or y is None or isinstance(x, str) or isinstance(y, str):
                if x != y:
                    return 'observation %s: %r vs %r' % (n1, x, y)
                continue
            x = float(x)
            y = float(y)
            if abs(x - y) > 1e-7 * max(1.0, abs(x), abs(y)):
                return 'observation %s: lifted %r vs real %r' % (n1, x, y)
    return None


def _compare_obs_lists(a_obs, b_obs):
    if len(a_obs) != len(b_obs):
        return 'observation count differs'
    for (n1, v1), (n2, v2) in zip(a_obs, b_obs):
        a = _flat(v1)
        b = _flat(v2)
        if n1 != n2 or len(a) != len(b):
            return 'observation %s: shape differs' % n1
        for x, y in zip(a, b):
            if is_sym(x):
                return 'observation %s is symbolic in the pinned run' % n1
            if isinstance(x, str) or isinstance(y, str) or x is None or y is None:
                if x != y:
                    return 'observation %s: %r vs %r' % (n1, x, y)
                continue
            if abs(float(x) - float(y)) > 1e-7 * max(1.0, abs(float(x)), abs(float(y))):
                return 'observation %s: pinned %r vs real %r' % (n1, x, y)
    return None


def _flat(v):
    import numpy as np
    if isinstance(v, np.ndarray):
        return [e for x in v.flat for e in _flat(x)]
    if isinstance(v, (list, tuple)):
        return [e for x in v for e in _flat(x)]
    return [v]


def _handle_violation(job, summ, ctx, S, model, label, detail, exc_type):
    vals, tables = _values_from_model(ctx, S, model)
    res = run_concrete(job, vals, tables)
    reproduced = False
    how = ''
    if res['assume_failed']:
        how = 'concrete replay left the assumed region (rounding of model values)'
    elif exc_type is not None:
        # any exception out of the real library on the solver's input is a failure of the real code; the type may differ
        # from the lifted run where numpy floats and Python floats differ (division by zero: inf/nan vs ZeroDivisionError)
        reproduced = res['exception'] is not None
        how = 'replay raised %s' % res['exception'] if res['exception'] else 'replay raised nothing'
        if reproduced and res.get('exception_type') != exc_type:
            label = 'exception:%s' % res.get('exception_type')
    else:
        failing = [l for (l, ok, _) in res['goals'] if not ok]
        if res['exception']:
            reproduced = True
            how = 'replay raised %s' % res['exception']
            label = label + '|exception:' + res.get('exception_type', '')
        elif label in failing:
            reproduced = True
            how = 'goal fails on the real library'
        elif failing:
            reproduced = True
            how = 'a different goal fails on replay: %s' % failing[0]
        else:
            how = 'all goals hold on replay (%d goals)' % len(res['goals'])
    _record_violation(job, summ, vals, tables, label, (detail or '') + ' :: ' + how, reproduced, exc_type)


def _record_violation(job, summ, vals, tables, label, detail, reproduced, exc_type):
    for v in summ['violations']:
        if v['label'] == label and v['reproduced'] == reproduced:
            v['count'] += 1
            return
    summ['violations'].append({'label': label, 'detail': detail, 'reproduced': reproduced, 'count': 1,
                               'values': _jsonable_values(vals), 'tables': tables, 'job': job.name,
                               'family': job.family, 'exc_type': exc_type})


# ---------------------------------------------------------------------------------------------------
# check driver
# ---------------------------------------------------------------------------------------------------
_JOBS = []


def _worker(i_seed):
    i, seed = i_seed
    job = _JOBS[i]
    try:
        return run_job(job, seed)
    except BaseException as e:  # harness error
        return {'job': job.name, 'family': job.family, 'params': _jsonable_params(job.params), 'paths': 0,
                'decisions': 0, 'proved': 0,
                'trivial': 0, 'unknown': [], 'violations': [], 'validated': 0, 'validation_skipped': 0,
                'validation_mismatch': [], 'samples': [], 'queries': 0, 'solver_s': 0.0, 'branches': 0, 'wall_s': 0,
                'labels': {}, 'expected_raises': 0, 'infeasible': 0,
                'errors': [{'kind': 'harness', 'msg': '%s: %s' % (type(e).__name__, e), 'tb': traceback.format_exc()[-2000:]}]}


def load_known():
    p = os.path.join(VERIF, 'known_findings.json')
    if not os.path.exists(p):
        return []
    return json.load(open(p))['findings']


def match_known(pid, viol, known):
    import re
    for k in known:
        if k.get('property') != pid or k.get('status') != 'open':
            continue
        if re.search(k['job'], viol['job']) and re.search(k['label'], viol['label']):
            return k
    return None


def write_replay(pid, n, module, viol):
    d = os.path.join(EVIDENCE_DIR, 'replays')
    os.makedirs(d, exist_ok=True)
    p = os.path.join(d, '%s-%d.json' % (pid, n))
    json.dump({'property': pid, 'harness_module': module, 'job': viol['job'], 'label': viol['label'],
               'values': viol['values'], 'tables': viol['tables'], 'detail': viol['detail']}, open(p, 'w'), indent=1)
    return p


def main_check(pid, module, tier, jobs, meta, procs=None):
    """Run all jobs of one property; write evidence; print verdict lines; return the exit code."""
    global _JOBS
    t0 = time.time()
    seed = int(os.environ.get('VERIF_SEED', '0') or 0)
    _JOBS = jobs
    procs = procs or min(16, max(1, len(jobs)))
    ctx = mp.get_context('fork')
    order = sorted(range(len(jobs)), key=lambda i: -(jobs[i].budget_s or 0))
    with ctx.Pool(processes=procs, maxtasksperchild=8) as pool:
        summaries = []
        for sm in pool.imap_unordered(_worker, [(i, seed) for i in order], chunksize=1):
            summaries.append(sm)
            if os.environ.get('VERIF_PROGRESS'):
                sys.stderr.write('  done %-50s paths=%d wall=%.1fs viol=%d err=%d unk=%d\n' % (
                    sm['job'], sm['paths'], sm.get('wall_s', 0), len(sm['violations']), len(sm['errors']), len(sm['unknown'])))
    summaries.sort(key=lambda s: s['job'])
    known = load_known()
    viol_new, viol_known, unreproduced, errors, unknowns, mismatches = [], [], [], [], [], []
    for s in summaries:
        for v in s['violations']:
            if not v['reproduced']:
                unreproduced.append(v)
                continue
            k = match_known(pid, v, known)
            (viol_known if k else viol_new).append((v, k))
        for e in s['errors']:
            errors.append((s['job'], e))
        for u in s['unknown']:
            unknowns.append((s['job'], u))
        for mm in s['validation_mismatch']:
            mismatches.append((s['job'], mm))
    seen_known = {}
    for v, k in viol_known:
        seen_known.setdefault(k['id'], (k, v))
    for kid, (k, v) in sorted(seen_known.items()):
        print('KNOWN-FINDING: property=%s %s [%s]' % (pid, k['what'], kid))
    n = 0
    for v, _ in viol_new:
        n += 1
        p = write_replay(pid, n, module, v)
        print('VIOLATION property=%s replay=%s' % (pid, p))
        print('  job=%s goal=%s :: %s' % (v['job'], v['label'], (v['detail'] or '')[-300:].replace('\n', ' | ')))
    for v in unreproduced[:10]:
        print('INCONCLUSIVE (encoding mismatch, counterexample did not replay) job=%s goal=%s :: %s' % (
            v['job'], v['label'], (v['detail'] or '')[:300].replace('\n', ' | ')))
        print('   values=%s' % json.dumps(_short(v['values'], 30)))
    for j, e in errors[:15]:
        print('INCONCLUSIVE (%s) job=%s :: %s' % (e['kind'], j, e['msg'][:400]))
        if e.get('tb'):
            print(e['tb'])
    for j, u in unknowns[:10]:
        print('INCONCLUSIVE (solver unknown) job=%s goal=%s %s' % (j, u['label'], u.get('detail')))
    for j, mm in mismatches[:10]:
        print('INCONCLUSIVE (translator validation mismatch) job=%s :: %s values=%s' % (
            j, mm['why'], json.dumps(_short(mm.get('values', {}), 30))))
    tot = lambda k: sum(s.get(k, 0) for s in summaries)
    obligations = tot('proved') + tot('trivial') + len(unknowns) + sum(
        v['count'] for s in summaries for v in s['violations'])
    labels = {}
    for s in summaries:
        for l, c in s.get('labels', {}).items():
            labels[l] = labels.get(l, 0) + c
    samples = []
    for s in summaries:
        for smp in s['samples'][:1]:
            samples.append({'job': s['job'], **smp})
    samples = samples[:12] or [{'job': s['job'], 'params': s['params']} for s in summaries[:3]]
    ev = {
        'property_id': pid, 'tier': tier, 'seed': seed, 'level': 'model_checking',
        'coverage': {
            'states': max(tot('paths'), 0), 'transitions': max(tot('decisions'), 0),
            'traces_validated_against_impl': tot('validated'),
            'samples': samples,
            'obligations': obligations, 'discharged': tot('proved') + tot('trivial'),
            'discharged_by_solver': tot('proved'), 'discharged_by_normal_form': tot('trivial'),
            'inconclusive': len(unknowns) + len(errors) + len(unreproduced) + len(mismatches),
            'solver_queries': tot('queries'), 'solver_seconds': round(sum(s.get('solver_s', 0.0) for s in summaries), 3),
            'forking_branches': tot('branches'), 'implied_branches': tot('implied'),
            'int_realizations': tot('realizations'), 'infeasible_paths_pruned': tot('infeasible'),
            'validation_skipped_rounding': tot('validation_skipped'),
            'proved_goals_missed_by_float_rounding_at_one_model_but_not_at_others': tot('goal_missed_by_float_rounding_at_one_model'),
            'expected_exceptions_paths': tot('expected_raises'),
            'paths_cut_at_decision_bound': tot('cut_paths'),
            'jobs': len(summaries), 'exhaustive': all(s.get('exhausted', False) for s in summaries),
            'goal_labels': labels,
            'functions_encoded': meta.get('functions', []),
            'bounds': meta.get('bounds', {}).get(tier, meta.get('bounds')),
            'outside_claim': meta.get('outside', []),
            'stubs': meta.get('stubs', shim.STUBS),
            'solver': 'z3 %s (python API, incremental per path; fresh solver on unknown)' % z3.get_version_string(),
            'per_job': [{k: s.get(k) for k in ('job', 'paths', 'decisions', 'proved', 'trivial', 'queries', 'wall_s',
                                              'validated')} for s in summaries],
            'known_findings_reported': sorted(seen_known),
        },
        'assumptions': meta.get('assumptions', []),
        'wall_s': round(time.time() - t0, 2),
        'violations': len(viol_new),
    }
    os.makedirs(EVIDENCE_DIR, exist_ok=True)
    with open(os.path.join(EVIDENCE_DIR, '%s.json' % pid), 'w') as f:
        json.dump(ev, f, indent=1, default=str)
    print('%s %s: jobs=%d paths=%d decisions=%d obligations=%d discharged=%d queries=%d solver_s=%.1f validated=%d wall=%.1fs' % (
        pid, tier, len(summaries), ev['coverage']['states'], ev['coverage']['transitions'], obligations,
        ev['coverage']['discharged'], ev['coverage']['solver_queries'], ev['coverage']['solver_seconds'],
        ev['coverage']['traces_validated_against_impl'], ev['wall_s']))
    if viol_new:
        return EXIT_VIOLATION
    if unreproduced or errors or unknowns or mismatches:
        return EXIT_INCONCLUSIVE
    return EXIT_OK


def prepare_process():
    """Scratch cwd (the library writes log_sg into cwd), quiet logging; must run before importing sparseSpACE."""
    d = tempfile.mkdtemp(prefix='verif-scratch-')
    os.chdir(d)
    logging.disable(logging.CRITICAL)
    import atexit
    atexit.register(lambda: shutil.rmtree(d, ignore_errors=True))
    os.environ.setdefault('MPLBACKEND', 'Agg')
    repo = os.environ.get('VERIF_REPO', '/repo')  # VERIF_REPO: run the checks against another checkout (seeded changes in scratch worktrees)
    if repo not in sys.path:
        sys.path.insert(0, repo)
    preload()
    import sparseSpACE
    if not os.path.abspath(sparseSpACE.__file__).startswith(os.path.abspath(repo)):
        raise RuntimeError('sparseSpACE imported from %s, expected %s' % (sparseSpACE.__file__, repo))
    return d


PRELOAD = ['StandardCombi', 'Grid', 'Function', 'Utils', 'ComponentGridInfo', 'combiScheme', 'BasisFunctions', 'Hierarchization', 'Integrator',
           'RefinementObject', 'RefinementContainer', 'ErrorCalculator', 'GridOperation', 'DimAdaptiveCombi',
           'spatiallyAdaptiveBase', 'spatiallyAdaptiveSingleDimension2', 'spatiallyAdaptiveExtendSplit', 'spatiallyAdaptiveCell',
           'Extrapolation', 'DEMachineLearning']


def preload():
    """Import the library modules (fresh from /repo's working tree) before any shim is installed: the shim rebinds
    names in the modules that are loaded."""
    import importlib
    import warnings
    warnings.filterwarnings('ignore')
    for m in PRELOAD:
        importlib.import_module('sparseSpACE.' + m)
