"""Makes numpy / math / scipy transparent for the proxies by rebinding *names inside the loaded
sparseSpACE modules* (the repository itself is not modified).  Everything here is part of the claim and
is listed in the evidence files (`STUBS`).  install()/uninstall() are exact inverses so that the same
process can run the unshimmed library for replay / translator validation.
"""
import builtins
import math as _math
import sys
import types
from fractions import Fraction

import numpy as _np

from . import core
from .core import SymNum, SymBool, Unsupported, is_sym, ite, sym_and, sym_or

STUBS = [
    "np.zeros/ones/empty/full/array/asarray/linspace/zeros_like/ones_like/arange -> object arrays when dtype is float/unspecified",
    "np.isscalar/isclose/allclose/abs/amax/amin/max/min/maximum/minimum/sqrt/exp/cos/sin/floor/ceil/log2/sign/where/argmax/argsort/sort/isinf/isnan/float64 -> proxy-aware versions with identical semantics on reals",
    "math.isclose/isinf/sqrt/exp/cos/sin/floor/ceil/log2/pow/fabs, np.arctan, scipy.special.erf -> proxy-aware versions (transcendentals uninterpreted: congruence only)",
    "numpy.linalg.solve with a symbolic right-hand side -> exact rational Gaussian elimination (contract: solution of the system; singular -> LinAlgError)",
    "numpy.linalg.norm (ord inf/1/2) -> proxy-aware version (2-norm of a vector through sqrt as a fresh non-negative root)",
    "print, logging output of the library -> silenced",
    "scipy.interpolate.interpn -> reference multilinear interpolant over object arrays (validated against scipy at each run)",
]


def _has_sym(x):
    if is_sym(x):
        return True
    if isinstance(x, _np.ndarray):
        if x.dtype == object:
            for e in x.flat:
                if is_sym(e) or (isinstance(e, (list, tuple, _np.ndarray)) and _has_sym(e)):
                    return True
        return False
    if isinstance(x, (list, tuple)):
        return any(_has_sym(e) for e in x)
    return False


def _objarr(x):
    a = _np.empty(len(x), dtype=object)
    for i, e in enumerate(x):
        a[i] = e
    return a


def _map(f, x):
    """Apply f elementwise to scalar / nested list / ndarray, returning the same shape (object array)."""
    if isinstance(x, _np.ndarray):
        out = _np.empty(x.shape, dtype=object)
        for idx in _np.ndindex(x.shape):
            out[idx] = f(x[idx])
        return out
    if isinstance(x, (list, tuple)):
        return _map(f, _np.array(x, dtype=object))
    return f(x)


def _boolify(a):
    """Object array of concrete booleans -> bool array (usable as a mask); anything symbolic stays as it is."""
    if isinstance(a, _np.ndarray) and a.dtype == object:
        if all(isinstance(e, (bool, _np.bool_)) for e in a.flat):
            return a.astype(bool)
    return a


def _is_float_dtype(dtype):
    if dtype is object:
        return False  # explicit object arrays keep numpy's semantics (np.empty -> None entries)
    if dtype is None or dtype is float:
        return True
    try:
        return _np.issubdtype(_np.dtype(dtype), _np.floating)
    except TypeError:
        return False


class _FloatMeta(type):
    def __instancecheck__(cls, inst):
        return isinstance(inst, builtins.float) or (isinstance(inst, SymNum) and not inst.is_int)


class FloatFacade(builtins.float, metaclass=_FloatMeta):
    """`float` as seen by the library: isinstance(SymReal, float) is True, float(x) keeps proxies."""

    def __new__(cls, x=0.0):
        if isinstance(x, SymNum):
            return SymNum(x.terms, False).lower() if x.is_int else x
        if hasattr(x, '__symvalue__'):
            return FloatFacade(x.__symvalue__())
        return builtins.float(x)


def sym_isclose(a, b, rel_tol=1e-09, abs_tol=0.0):
    if not (is_sym(a) or is_sym(b)):
        return _math.isclose(a, b, rel_tol=rel_tol, abs_tol=abs_tol)
    d = abs(a - b)
    aa, ab = abs(a), abs(b)
    m = ite(aa >= ab, aa, ab)
    bound = rel_tol * m
    if abs_tol:
        bound = ite(bound >= abs_tol, bound, abs_tol)
    return d <= bound


def sym_isinf(x):
    if is_sym(x):
        return False
    return _math.isinf(x)


def sym_isnan(x):
    if is_sym(x):
        return False
    return _math.isnan(x)


def _m_sqrt(x):
    return core.sym_sqrt(x) if is_sym(x) else _math.sqrt(x)


def _uf(name):
    def f(x):
        if is_sym(x):
            return core.ufunc_app(name, x)
        return getattr(_math, name)(x)

    return f


def _m_log(x, base=None):
    if is_sym(x) or is_sym(base):
        if base is None:
            return core.ufunc_app('log', x)
        raise Unsupported('log with base of a symbolic value')
    return _math.log(x) if base is None else _math.log(x, base)


def _uf_any(name, concrete=None):
    """Uninterpreted unary function for names that math does not provide under the same name."""
    def f(x):
        if is_sym(x):
            x = core.SymNum.coerce(x)
            if not x.is_const():
                import z3
                fn = core._UFS.get(name)
                if fn is None:
                    fn = core._UFS[name] = z3.Function('uf_' + name, z3.RealSort(), z3.RealSort())
                return core.SymNum.from_z3(fn(x.z3real()))
            x = float(x.const_value())
        if concrete is not None:
            return concrete(x)
        return getattr(_math, name)(x)

    return f


class _SpecialFacade(types.ModuleType):
    def __init__(self):
        super().__init__('scipy_special_facade')

    def __getattr__(self, name):
        import scipy.special
        return getattr(scipy.special, name)

    @staticmethod
    def erf(x):
        import scipy.special
        return _uf_any('erf', scipy.special.erf)(x)


class _ScipyFacade(types.ModuleType):
    def __init__(self):
        super().__init__('scipy_facade')
        self.special = _SpecialFacade()

    def __getattr__(self, name):
        import scipy
        return getattr(scipy, name)


def _m_floor(x):
    return core.floor(x) if is_sym(x) else _math.floor(x)


def _m_ceil(x):
    return -core.floor(-x) if is_sym(x) else _math.ceil(x)


def _m_log2(x):
    if is_sym(x):
        x = x.lower() if isinstance(x, SymNum) else x
        if is_sym(x):
            raise Unsupported('log2 of symbolic value')
    return _math.log2(x)


def _m_pow(a, b):
    if is_sym(a) or is_sym(b):
        return a ** b
    return _math.pow(a, b)


def _m_fabs(x):
    return abs(x) if is_sym(x) else _math.fabs(x)


def _m_copysign(a, b):
    if is_sym(a) or is_sym(b):
        m = abs(a)
        return ite(b >= 0, m, -m)
    return _math.copysign(a, b)


class MathFacade(types.ModuleType):
    def __init__(self):
        super().__init__('math_facade')
        self.isclose = sym_isclose
        self.isinf = sym_isinf
        self.isnan = sym_isnan
        self.sqrt = _m_sqrt
        self.exp = _uf('exp')
        self.cos = _uf('cos')
        self.sin = _uf('sin')
        self.log = _m_log
        self.floor = _m_floor
        self.ceil = _m_ceil
        self.log2 = _m_log2
        self.pow = _m_pow
        self.fabs = _m_fabs
        self.copysign = _m_copysign

    def __getattr__(self, name):
        return getattr(_math, name)


# ---------------------------------------------------------------------------------------------------
class NPFacade(types.ModuleType):
    """Forwards to numpy; creation routines yield object arrays so that proxies can be stored."""

    def __init__(self):
        super().__init__('numpy_facade')

    def __getattr__(self, name):
        if name == 'linalg':
            return _LA
        return getattr(_np, name)

    # ---- creation
    @staticmethod
    def zeros(shape, dtype=None, **kw):
        if _is_float_dtype(dtype):
            a = _np.empty(shape, dtype=object)
            a.fill(0.0)
            return a
        return _np.zeros(shape, dtype=dtype, **kw)

    @staticmethod
    def ones(shape, dtype=None, **kw):
        if _is_float_dtype(dtype):
            a = _np.empty(shape, dtype=object)
            a.fill(1.0)
            return a
        return _np.ones(shape, dtype=dtype, **kw)

    @staticmethod
    def empty(shape, dtype=None, **kw):
        if _is_float_dtype(dtype):
            a = _np.empty(shape, dtype=object)
            a.fill(0.0)
            return a
        return _np.empty(shape, dtype=dtype, **kw)

    @staticmethod
    def full(shape, fill_value, dtype=None, **kw):
        if _is_float_dtype(dtype) and not isinstance(fill_value, (bool, int, _np.integer)) or is_sym(fill_value):
            a = _np.empty(shape, dtype=object)
            a.fill(fill_value)
            return a
        return _np.full(shape, fill_value, dtype=dtype, **kw)

    @staticmethod
    def zeros_like(a, dtype=None, **kw):
        if isinstance(a, _np.ndarray) and a.dtype != object and not _np.issubdtype(a.dtype, _np.floating):
            return _np.zeros_like(a, dtype=dtype, **kw)
        return NPFacade.zeros(_np.shape(a), dtype=dtype)

    @staticmethod
    def ones_like(a, dtype=None, **kw):
        if isinstance(a, _np.ndarray) and a.dtype != object and not _np.issubdtype(a.dtype, _np.floating):
            return _np.ones_like(a, dtype=dtype, **kw)
        return NPFacade.ones(_np.shape(a), dtype=dtype)

    @staticmethod
    def array(obj, dtype=None, **kw):
        if _has_sym(obj):
            kw.pop('copy', None)
            return _np.array(obj, dtype=object, **kw)
        if dtype is float or (dtype is not None and dtype is not object and _is_float_dtype(dtype)):
            a = _np.array(obj, dtype=dtype, **kw)
            return a.astype(object)
        a = _np.array(obj, dtype=dtype, **kw)
        if a.dtype != object and _np.issubdtype(a.dtype, _np.floating):
            return a.astype(object)
        return a

    @staticmethod
    def asarray(obj, dtype=None, **kw):
        if isinstance(obj, _np.ndarray) and obj.dtype == object:
            return obj
        return NPFacade.array(obj, dtype=dtype, **kw)

    @staticmethod
    def linspace(start, stop, num=50, endpoint=True, **kw):
        if kw:
            raise Unsupported('linspace kwargs %r' % (kw,))
        num = int(num)
        out = _np.empty(num, dtype=object)
        div = (num - 1) if endpoint else num
        for i in range(num):
            if div == 0:
                out[i] = start * 1.0
            elif endpoint and i == num - 1:
                out[i] = stop * 1.0
            else:
                # numpy: start + i*step with step=(stop-start)/div  (exact in real arithmetic)
                out[i] = start + (stop - start) * Fraction(i, div) if is_sym(start) or is_sym(stop) else float(
                    _np.linspace(start, stop, num, endpoint=endpoint)[i])
        return out

    @staticmethod
    def arange(*a, **kw):
        return _np.arange(*[int(x) if is_sym(x) else x for x in a], **kw)

    # ---- predicates / elementwise
    @staticmethod
    def isscalar(x):
        return is_sym(x) or _np.isscalar(x)

    @staticmethod
    def isclose(a, b, rtol=1e-05, atol=1e-08, **kw):
        if not (_has_sym(a) or _has_sym(b)):
            return _np.isclose(_tofloat(a), _tofloat(b), rtol=rtol, atol=atol, **kw)

        def f(x, y):
            return abs(x - y) <= atol + rtol * abs(y)

        return _boolify(_map2(f, a, b))

    @staticmethod
    def allclose(a, b, rtol=1e-05, atol=1e-08, **kw):
        r = NPFacade.isclose(a, b, rtol=rtol, atol=atol)
        if isinstance(r, _np.ndarray):
            return sym_and(*list(r.flat))
        return r

    @staticmethod
    def abs(x, out=None):
        r = _map(abs, x) if (isinstance(x, _np.ndarray) and x.dtype == object) or isinstance(x, (
            list, tuple)) and _has_sym(x) else (abs(x) if is_sym(x) else _np.abs(x))
        if out is not None:  # numpy's in-place form np.abs(a, out=a)
            out[...] = r
            return out
        return r

    absolute = abs
    fabs = abs

    @staticmethod
    def sqrt(x):
        if _has_sym(x) or (isinstance(x, _np.ndarray) and x.dtype == object):
            return _map(_m_sqrt, x)
        return _np.sqrt(x)

    @staticmethod
    def exp(x):
        if _has_sym(x) or (isinstance(x, _np.ndarray) and x.dtype == object):
            return _map(_uf('exp'), x)
        return _np.exp(x)

    @staticmethod
    def cos(x):
        if _has_sym(x) or (isinstance(x, _np.ndarray) and x.dtype == object):
            return _map(_uf('cos'), x)
        return _np.cos(x)

    @staticmethod
    def sin(x):
        if _has_sym(x) or (isinstance(x, _np.ndarray) and x.dtype == object):
            return _map(_uf('sin'), x)
        return _np.sin(x)

    @staticmethod
    def arctan(x):
        if _has_sym(x) or (isinstance(x, _np.ndarray) and x.dtype == object):
            return _map(_uf_any('atan'), x)
        return _np.arctan(x)

    @staticmethod
    def floor(x):
        if _has_sym(x) or (isinstance(x, _np.ndarray) and x.dtype == object):
            return _map(_m_floor, x)
        return _np.floor(x)

    @staticmethod
    def ceil(x):
        if _has_sym(x) or (isinstance(x, _np.ndarray) and x.dtype == object):
            return _map(_m_ceil, x)
        return _np.ceil(x)

    @staticmethod
    def isinf(x):
        if isinstance(x, _np.ndarray) and x.dtype == object or _has_sym(x):
            return _boolify(_map(sym_isinf, x))
        return _np.isinf(x)

    @staticmethod
    def isnan(x):
        if isinstance(x, _np.ndarray) and x.dtype == object or _has_sym(x):
            return _boolify(_map(sym_isnan, x))
        return _np.isnan(x)

    class _MaxMin:
        """np.maximum / np.minimum incl. .reduce on proxies (ite terms, no forking)."""

        def __init__(self, f, real):
            self.f, self.real = f, real

        def __call__(self, a, b):
            if _has_sym(a) or _has_sym(b):
                return _map2(self.f, a, b)
            return self.real(_tofloat(a) if isinstance(a, _np.ndarray) else a, _tofloat(b) if isinstance(b, _np.ndarray) else b)

        def reduce(self, arrs, axis=0, **kw):
            if not _has_sym(arrs):
                return self.real.reduce([_tofloat(_np.asarray(x)) for x in arrs] if isinstance(arrs, (list, tuple)) else _tofloat(arrs), axis=axis, **kw)
            if axis != 0:
                raise Unsupported('maximum.reduce with axis != 0 on symbolic data')
            it = list(arrs)
            r = it[0]
            for x in it[1:]:
                r = _map2(self.f, r, x)
            return r

    maximum = _MaxMin(core.sym_max, _np.maximum)
    minimum = _MaxMin(core.sym_min, _np.minimum)

    @staticmethod
    def clip(a, a_min=None, a_max=None, **kw):
        if kw.get('min') is not None:
            a_min = kw['min']
        if kw.get('max') is not None:
            a_max = kw['max']
        if not _has_sym(a):
            return _np.clip(_tofloat(a) if isinstance(a, _np.ndarray) else a, a_min, a_max)
        r = a
        if a_min is not None:
            r = _map2(core.sym_max, r, a_min)
        if a_max is not None:
            r = _map2(core.sym_min, r, a_max)
        return r

    @staticmethod
    def amax(a, axis=None, **kw):
        if _has_sym(a):
            return _reduce(core.sym_max, a, axis)
        return _np.amax(a, axis=axis, **kw)

    @staticmethod
    def amin(a, axis=None, **kw):
        if _has_sym(a):
            return _reduce(core.sym_min, a, axis)
        return _np.amin(a, axis=axis, **kw)

    max = amax
    min = amin

    @staticmethod
    def isfinite(x):
        if isinstance(x, _np.ndarray) and x.dtype == object or _has_sym(x):
            return _boolify(_map(lambda e: True if is_sym(e) else _math.isfinite(e), x))
        return _np.isfinite(x)

    @staticmethod
    def sign(x):
        if _has_sym(x):
            return _map(lambda e: ite(e > 0, 1.0, ite(e < 0, -1.0, 0.0)) if is_sym(e) else _np.sign(e), x)
        return _np.sign(x)


def _tofloat(a):
    if isinstance(a, _np.ndarray) and a.dtype == object:
        return a.astype(float)
    return a


def _map2(f, a, b):
    if isinstance(a, (list, tuple)):
        a = _np.array(a, dtype=object)
    if isinstance(b, (list, tuple)):
        b = _np.array(b, dtype=object)
    if isinstance(a, _np.ndarray) or isinstance(b, _np.ndarray):
        aa, bb = _np.broadcast_arrays(_np.asarray(a, dtype=object), _np.asarray(b, dtype=object))
        out = _np.empty(aa.shape, dtype=object)
        for idx in _np.ndindex(aa.shape):
            out[idx] = f(aa[idx], bb[idx])
        return out
    return f(a, b)


def _reduce(f, a, axis):
    a = _np.asarray(a, dtype=object)
    if axis is None:
        it = list(a.flat)
        r = it[0]
        for e in it[1:]:
            r = f(r, e)
        return r
    a = _np.moveaxis(a, axis, 0)
    r = a[0]
    for k in range(1, a.shape[0]):
        r = _map2(f, r, a[k])
    return r


# ---------------------------------------------------------------------------------------------------
def ref_interpn(points, values, xi, method='linear', bounds_error=True, fill_value=float('nan')):
    """Reference multilinear interpolation on a rectilinear grid (contract of scipy.interpolate.interpn,
    method='linear', points inside the grid).  values may carry trailing dimensions."""
    if method != 'linear':
        raise Unsupported('interpn method %r' % (method,))
    d = len(points)
    values = _np.asarray(values, dtype=object) if not isinstance(values, _np.ndarray) else values
    xi = _np.asarray(xi, dtype=object) if not isinstance(xi, _np.ndarray) else xi
    if xi.size == 0:
        return _np.empty((0,) + values.shape[d:], dtype=object)
    single = (xi.ndim == 1)
    pts = xi.reshape((-1, d)) if not single else xi.reshape((1, d))
    trailing = values.shape[d:]
    out = _np.empty((len(pts),) + trailing, dtype=object)
    for n, x in enumerate(pts):
        idxs = []
        ts = []
        for k in range(d):
            g = points[k]
            m = len(g)
            if m == 1:
                idxs.append(0)
                ts.append(None)
                continue
            # locate interval i with g[i] <= x <= g[i+1]   (forks only when x is symbolic)
            if bool(x[k] < g[0]) or bool(x[k] > g[m - 1]):
                if bounds_error:
                    raise ValueError('One of the requested xi is out of bounds in dimension %d' % k)
                raise Unsupported('interpn extrapolation')
            i = 0
            while i < m - 2 and bool(x[k] >= g[i + 1]):
                i += 1
            idxs.append(i)
            ts.append((x[k] - g[i]) / (g[i + 1] - g[i]))
        acc = None
        for corner in _np.ndindex(*([2] * d)):
            w = 1.0
            skip = False
            idx = []
            for k in range(d):
                if ts[k] is None:
                    if corner[k] == 1:
                        skip = True
                        break
                    idx.append(0)
                    continue
                w = w * (ts[k] if corner[k] else (1 - ts[k]))
                idx.append(idxs[k] + corner[k])
            if skip:
                continue
            if not is_sym(w) and w == 0:
                continue
            term = values[tuple(idx)] * w
            acc = term if acc is None else acc + term
        out[n] = acc
    return out


class LAFacade(types.ModuleType):
    """numpy.linalg as seen by the library: norm() on proxies for ord in {inf, 1, 2}; solve/lstsq are stubbed per harness."""

    def __init__(self):
        super().__init__('linalg_facade')

    def __getattr__(self, name):
        return getattr(_np.linalg, name)

    @staticmethod
    def solve(M, b):
        """numpy.linalg.solve contract: the solution of M x = b for a non-singular M.  With a symbolic right-hand side (and a concrete
        matrix) the solution is computed by exact rational Gaussian elimination with pivoting, so x is an exact linear combination
        of the entries of b; a singular matrix raises LinAlgError like numpy."""
        if not _has_sym(b) and not _has_sym(M):
            return _np.linalg.solve(_tofloat(_np.asarray(M)), _tofloat(_np.asarray(b)))
        if _has_sym(M):
            raise Unsupported('linear solve with a symbolic matrix')
        A = [[Fraction(float(v)) for v in row] for row in _np.asarray(M, dtype=object)]
        n = len(A)
        bb = _np.asarray(b, dtype=object)
        rhs = [bb[i] for i in range(n)]
        for c in range(n):
            piv = max(range(c, n), key=lambda r: abs(A[r][c]))
            if A[piv][c] == 0:
                raise _np.linalg.LinAlgError('Singular matrix')
            A[c], A[piv] = A[piv], A[c]
            rhs[c], rhs[piv] = rhs[piv], rhs[c]
            for r in range(c + 1, n):
                if A[r][c] != 0:
                    f = A[r][c] / A[c][c]
                    for k in range(c, n):
                        A[r][k] -= f * A[c][k]
                    rhs[r] = rhs[r] - rhs[c] * f
        x = [None] * n
        for r in range(n - 1, -1, -1):
            acc = rhs[r]
            for k in range(r + 1, n):
                acc = acc - x[k] * A[r][k]
            x[r] = acc / A[r][r]
        out = _np.empty(bb.shape, dtype=object)
        for i in range(n):
            out[i] = x[i]
        return out

    @staticmethod
    def qr(M, *a, **k):
        """numpy.linalg.qr, modelled jointly with scipy.linalg.solve_triangular (ref_solve_triangular): the factorisation of a concrete
        matrix is returned as (identity, M) - Q orthonormal, Q R = M - and the triangular solve with R is an exact general solve, so
        solve_triangular(R, Q^T y) is the exact solution of M x = y.  Code that used the triangular shape of R otherwise is not modelled."""
        if _has_sym(M):
            raise Unsupported('QR factorisation of a symbolic matrix')
        M = _tofloat(_np.asarray(M))
        if M.ndim != 2 or M.shape[0] != M.shape[1]:
            return _np.linalg.qr(M, *a, **k)
        return _np.identity(M.shape[0]), M

    @staticmethod
    def lstsq(a, b, rcond=None):
        """numpy.linalg.lstsq: concrete data -> numpy; symbolic data -> the harness-provided stand-in LSTSQ_HOOK[0] (P3)."""
        if LSTSQ_HOOK[0] is not None:
            return LSTSQ_HOOK[0](a, b, rcond)
        if _has_sym(a) or _has_sym(b):
            raise Unsupported('least-squares solve on symbolic data without a harness stand-in')
        return _np.linalg.lstsq(_tofloat(_np.asarray(a)), _tofloat(_np.asarray(b)), rcond=rcond)

    @staticmethod
    def norm(x, ord=None, axis=None, **kw):
        if not _has_sym(x):
            return _np.linalg.norm(_tofloat(_np.asarray(x)) if isinstance(x, _np.ndarray) or isinstance(x, (list, tuple)) else x, ord, axis, **kw)
        if axis is not None:
            raise Unsupported('norm with axis on symbolic data')
        v = [e for e in _np.asarray(x, dtype=object).flat]
        if ord == _np.inf:
            r = abs(v[0])
            for e in v[1:]:
                r = core.sym_max(r, abs(e))
            return r
        if ord == 1:
            r = 0
            for e in v:
                r = r + abs(e)
            return r
        if ord is None or ord == 2:
            if len(v) == 1:
                return abs(v[0])
            tot = 0
            for e in v:
                tot = tot + e * e
            return core.sym_sqrt(tot)
        raise Unsupported('norm ord=%r' % (ord,))


def ref_solve_triangular(R, y, *a, **k):
    """scipy.linalg.solve_triangular on the R of LAFacade.qr: exact solution of R x = y (see LAFacade.qr)."""
    return LAFacade.solve(R, y)


LSTSQ_HOOK = [None]
_LA = LAFacade()


def _silent(*a, **k):
    return None


_NP = NPFacade()
_MATH = MathFacade()
_installed = []  # (module dict, name, original)


def _replacements():
    import scipy.interpolate
    return [
        ('np', _np, _NP),
        ('numpy', _np, _NP),
        ('math', _math, _MATH),
        ('isclose', _math.isclose, sym_isclose),
        ('isinf', _math.isinf, sym_isinf),
        ('log2', _math.log2, _m_log2),
        ('copysign', _math.copysign, _m_copysign),
        ('interpn', scipy.interpolate.interpn, ref_interpn),
        ('LA', _np.linalg, _LA),
        ('solve_triangular', __import__('scipy.linalg').linalg.solve_triangular, ref_solve_triangular),
        ('scipy', __import__('scipy'), _ScipyFacade()),
    ]


def install(extra=None, silence=True):
    """Rebind names in all loaded sparseSpACE modules.  `extra`: list of (modname or None, name, replacement)."""
    if _installed:
        return
    reps = _replacements()
    for mname, mod in list(sys.modules.items()):
        if mod is None or not (mname == 'sparseSpACE' or mname.startswith('sparseSpACE.')):
            continue
        d = mod.__dict__
        for name, orig, new in reps:
            if d.get(name) is orig:
                _installed.append((d, name, orig, True))
                d[name] = new
        if silence:
            _installed.append((d, 'print', d.get('print', None), 'print' in d))
            d['print'] = _silent
        _installed.append((d, 'float', d.get('float', None), 'float' in d))
        d['float'] = FloatFacade
        for em, name, new in (extra or []):
            if em is None or em == mname:
                if name in d:
                    _installed.append((d, name, d[name], True))
                    d[name] = new
                elif em == mname and hasattr(builtins, name):
                    # a builtin the module uses (e.g. str): shadow it in that module's namespace only
                    _installed.append((d, name, None, False))
                    d[name] = new


def uninstall():
    LSTSQ_HOOK[0] = None
    ml = sys.modules.get('lift.mlstubs')
    if ml is not None:
        ml.MSE_HOOK[0] = None
    while _installed:
        d, name, orig, had = _installed.pop()
        if had:
            d[name] = orig
        else:
            d.pop(name, None)


def validate_stubs():
    """Concrete cross-check of the interpn stub against scipy (run by every check that uses it)."""
    import scipy.interpolate
    rng = _np.random.RandomState(0)
    for d in (1, 2, 3):
        grids = [_np.sort(rng.rand(rng.randint(2, 5))) for _ in range(d)]
        vals = rng.rand(*[len(g) for g in grids], 2)
        x = _np.array([[g[0] + (g[-1] - g[0]) * rng.rand() for g in grids] for _ in range(7)] + [[g[0] for g in grids],
                                                                                                  [g[-1] for g in
                                                                                                   grids],
                                                                                                  [g[1] for g in
                                                                                                   grids]])
        want = scipy.interpolate.interpn(grids, vals, x)
        got = ref_interpn(grids, vals, x).astype(float)
        if not _np.allclose(want, got, rtol=1e-12, atol=1e-12):
            raise RuntimeError('interpn stub disagrees with scipy')
    return True
